#!/venv/bin/python
"""Evaluate seeded property-breaking changes (seeded/<id>/patch.diff) against the checks.

usage: tools/seedcheck.py seeded/<id> [--checks C01,C07] [--only C05] [--thorough]

The patch is applied to a scratch copy of /repo's pytato under $TMPDIR (never to /repo);
the property's own check (meta.json "property") runs first in the quick tier, then -- if it
stays silent -- in the thorough tier; `--checks` adds other checks.  The outcome is written
to seeded/<id>/result.json: {"check": {"tier": ..., "fired": bool, "keys": [...]}}.
"""
import json
import os
import re
import shutil
import subprocess
import sys
import tempfile

ROOT = os.path.dirname(os.path.dirname(os.path.abspath(__file__)))


def run(check: str, tier: str, scratch: str) -> tuple[bool, list[str], int]:
    env = dict(os.environ, VERIF_REPO=scratch,
               VERIF_EVIDENCE_DIR=os.path.join(scratch, "evidence"),
               VERIF_REPLAY_DIR=os.path.join(scratch, "replay"))
    r = subprocess.run(["/venv/bin/python", "-m", "vf.cli", check, "--tier", tier],
                       cwd=ROOT, env=env, capture_output=True, text=True)
    keys = re.findall(r"^\s+key=(\S+)", r.stdout, flags=re.M)
    return r.returncode == 1 and "VIOLATION" in r.stdout, keys[:6], r.returncode


def main() -> int:
    args = [a for a in sys.argv[1:] if not a.startswith("--")]
    d = os.path.abspath(args[0])
    meta = json.load(open(os.path.join(d, "meta.json")))
    prop = meta["property"]
    extra = []
    if "--checks" in sys.argv:
        extra = sys.argv[sys.argv.index("--checks") + 1].split(",")
    scratch = tempfile.mkdtemp(prefix="vf-seed-")
    result: dict[str, object] = {}
    try:
        shutil.copytree("/repo/pytato", os.path.join(scratch, "pytato"))
        r = subprocess.run(["patch", "-p1", "-s", "-d", scratch, "-i",
                            os.path.join(d, "patch.diff")], capture_output=True, text=True)
        if r.returncode != 0:
            print("PATCH FAILED", r.stdout[-300:], r.stderr[-300:])
            result["patch"] = "failed to apply to the current /repo tree"
            json.dump(result, open(os.path.join(d, "result.json"), "w"), indent=1)
            return 2
        # the demonstration must show the violation on the patched copy
        demo = os.path.join(d, "demonstration.py")
        if os.path.exists(demo):
            env = dict(os.environ, PYTHONPATH=scratch)
            rr = subprocess.run(["/venv/bin/python", demo], cwd=scratch, env=env,
                                capture_output=True, text=True, timeout=600)
            line = next((ln for ln in rr.stdout.splitlines()
                         if ln.startswith(("VIOLATED", "OK"))), rr.stdout[-120:])
            result["demonstration_on_patched"] = line[:200]
        checks = [prop, *[c for c in extra if c != prop]]
        if "--only" in sys.argv:
            # keep what result.json already records for the other checks
            checks = sys.argv[sys.argv.index("--only") + 1].split(",")
            try:
                old = json.load(open(os.path.join(d, "result.json")))
                result.update({k: v for k, v in old.items() if k not in checks
                               and isinstance(v, dict)})
            except Exception:  # noqa: BLE001
                pass
        for check in checks:
            fired, keys, rc = run(check, "quick", scratch)
            tier = "quick"
            if not fired and ("--thorough" in sys.argv or check == prop):
                fired, keys, rc = run(check, "thorough", scratch)
                tier = "thorough"
            result[check] = {"tier": tier, "fired": fired, "exit": rc, "keys": keys}
            print(f"{os.path.basename(d)} {check}: {'CAUGHT' if fired else 'MISSED'} "
                  f"({tier}, exit {rc}) {keys[:2]}")
    finally:
        shutil.rmtree(scratch, ignore_errors=True)
    json.dump(result, open(os.path.join(d, "result.json"), "w"), indent=1)
    return 0


if __name__ == "__main__":
    sys.exit(main())
