#!/venv/bin/python
"""Apply a patch to a scratch copy of /repo's pytato and run checks against it.

usage: tools/selftest.py <patch.diff> <PROP> [<PROP> ...] [--tier quick]
Prints for each property whether the check fired (exit 1 + VIOLATION line).
The scratch copy lives under $TMPDIR and is removed afterwards; evidence and
replay files of these runs go to the scratch directory, never to /verif.
"""
import os
import shutil
import subprocess
import sys
import tempfile

ROOT = os.path.dirname(os.path.dirname(os.path.abspath(__file__)))


def main() -> int:
    args = [a for a in sys.argv[1:] if not a.startswith("--")]
    tier = "quick"
    if "--tier" in sys.argv:
        tier = sys.argv[sys.argv.index("--tier") + 1]
        args = [a for a in args if a != tier]
    patch, props = args[0], args[1:]
    src = os.environ.get("SELFTEST_SRC", "/repo")
    scratch = tempfile.mkdtemp(prefix="vf-mut-")
    try:
        shutil.copytree(os.path.join(src, "pytato"), os.path.join(scratch, "pytato"))
        r = subprocess.run(["patch", "-p1", "-s", "-d", scratch, "-i", os.path.abspath(patch)],
                           capture_output=True, text=True)
        if r.returncode != 0:
            print("PATCH FAILED:", r.stdout, r.stderr)
            return 2
        env = dict(os.environ, VERIF_REPO=scratch,
                   VERIF_EVIDENCE_DIR=os.path.join(scratch, "evidence"),
                   VERIF_REPLAY_DIR=os.path.join(scratch, "replay"))
        allfired = True
        for p in props:
            r = subprocess.run(["/venv/bin/python", "-m", "vf.cli", p, "--tier", tier],
                               cwd=ROOT, env=env, capture_output=True, text=True)
            lines = [l for l in r.stdout.splitlines() if l.startswith("VIOLATION")
                     or l.strip().startswith("key=")]
            fired = r.returncode == 1 and any(l.startswith("VIOLATION") for l in lines)
            allfired &= fired
            print(f"{os.path.basename(patch)} {p}: {'CAUGHT' if fired else 'MISSED'} "
                  f"(exit {r.returncode})")
            for l in lines[:6]:
                print("   ", l[:200])
            if not fired:
                print("    tail:", r.stdout[-400:], r.stderr[-400:])
        return 0 if allfired else 1
    finally:
        shutil.rmtree(scratch, ignore_errors=True)


if __name__ == "__main__":
    sys.exit(main())
