#!/venv/bin/python
"""Shrink the spec in a replay file: tools/shrink_replay.py C01 replay/C01-xxx.json"""
import importlib, json, sys
sys.path.insert(0, __file__.rsplit("/", 2)[0])
from vf import common
common.repo_setup()
from vf.gen import shrink
prop, path = sys.argv[1], sys.argv[2]
mod = importlib.import_module("vf.checks." + prop.lower())
rp = json.load(open(path))
key = rp["key"]
spec = rp["witness"]["spec"]
def fails(s):
    col = common.Collector()
    try:
        mod.replay({"spec": s}, col)
    except Exception:
        return False
    return any(v["key"] == key for v in col.violations)
small = shrink.shrink(spec, fails)
print("key:", key)
print("inputs:")
for i in small["inputs"]: print("  ", json.dumps(i)[:300])
print("nodes:")
for n in small["nodes"]: print("  ", json.dumps(n))
print("outputs:", small["outputs"], "vseed", small["vseed"])
json.dump(small, open(path + ".min.json", "w"))
