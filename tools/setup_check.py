#!/venv/bin/python
"""setup_cmd: verify the toolchain the checks need; byte-compile vf/."""
import compileall
import os
import shutil
import subprocess
import sys

ok = True
for tool in ("gcc", "clang"):
    if shutil.which(tool) is None:
        print("missing tool:", tool)
        ok = False
try:
    import numpy, loopy, islpy, pymbolic, pytools  # noqa: F401,E401
except Exception as e:  # noqa: BLE001
    print("missing python dependency:", e)
    ok = False
root = os.path.dirname(os.path.dirname(os.path.abspath(__file__)))
if not compileall.compile_dir(os.path.join(root, "vf"), quiet=1):
    ok = False
os.makedirs(os.path.join(root, "evidence"), exist_ok=True)
os.makedirs(os.path.join(root, "replay"), exist_ok=True)
print("setup ok" if ok else "setup FAILED")
sys.exit(0 if ok else 1)
