#!/venv/bin/python
"""tools/mkmut.py <name> <file-relative-to-repo> <old> <new>  -> mutants/<name>.diff"""
import difflib, sys, os
name, rel, old, new = sys.argv[1:5]
src = open(os.path.join("/repo", rel)).read()
assert src.count(old) == 1, f"'{old}' occurs {src.count(old)} times"
dst = src.replace(old, new)
d = difflib.unified_diff(src.splitlines(True), dst.splitlines(True), "a/" + rel, "b/" + rel)
root = os.path.dirname(os.path.dirname(os.path.abspath(__file__)))
open(os.path.join(root, "mutants", name + ".diff"), "w").write("".join(d))
print("wrote", name)
