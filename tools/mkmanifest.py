#!/venv/bin/python
"""Regenerates MANIFEST.json from the table below (kept valid at all times)."""
import json
import os
import sys

ROOT = os.path.dirname(os.path.dirname(os.path.abspath(__file__)))
PY = "/venv/bin/python"

# id -> (category, technique, level text, level note, design_ref)
CHECKS = {
 "C02": ("exploration",
         "differential runtime oracle: independent pointwise IndexLambda interpreter vs NumPy on unique-id operands, bounded-exhaustive parameter enumeration",
         "Every lowered node is executed point by point by an interpreter that shares no code with pytato and compared exactly with NumPy; slices/int indices (axis length 0..6), reshape pairs, rolls, permutations and stack/concatenate are enumerated exhaustively inside the stated bounds, advanced indexing/einsum/CSR are seeded-random. In-mask out-of-bounds subscripts are reported as events. This is the right level because the defects are parameter-specific index arithmetic that a complete small-scope enumeration exposes.",
         "Trusts NumPy as reference and vf.oracle.ilinterp as the documented index-lambda meaning (kept honest by exact agreement with NumPy on every case). Axis lengths > 6 are not observed.",
         "DESIGN.md §3 C02"),
 "C19": ("exploration",
         "differential runtime oracle: HighLevelOp interpreted with NumPy vs independent pointwise evaluation of the lambda; recognition table for API-produced lambdas; hand-built near-miss lambdas",
         "Runs the real raiser on every lambda kind the public API produces (operator x operand-form x dtype-pair x shape-relation grid, every reduction axis subset) and on 28 near-miss shapes; the returned op is executed with NumPy on the identified operands and compared with the lambda's pointwise value (exact for int/bool, 8 ulp otherwise); crashes other than UnknownIndexLambdaExpr and unrecognised API lambdas are violations.",
         "Trusts NumPy ufuncs as the meaning of each HighLevelOp; HighLevelOps carry no dtype so the NumPy result is cast to the lambda's declared dtype before comparing. Expression shapes outside the generated families are not observed.",
         "DESIGN.md §3 C19"),
 "C01": ("exploration",
         "differential runtime oracle over generated programs: compiled kernel (loopy C target + gcc, harness buffers with canaries) vs NumPy shadow with Monte-Carlo-arithmetic tolerance, plus a third execution by a kernel-level interpreter (read-before-write / access events, attribution of loopy defects)",
         "Thousands of random well-formed programs (7 profiles, heavy sharing, 1-3 outputs, all op families of the quantifier) are built through the public API, passed through deduplicate and generate_loopy, compiled and executed on 1-2 input sets; every output's shape, declared dtype and values are compared with NumPy (exact for int/bool; scale-aware tolerance from randomised-rounding shadow runs otherwise); any exception on an in-fragment program is a violation; output/operand order variants must satisfy the same oracle. Violations are shrunk and keyed by the minimal program's signature.",
         "Trusts NumPy, gcc -O1 without contraction, and loopy's C code generator except for constructs listed in DESIGN.md §8 where the kernel-level interpreter agrees with NumPy and the C text is demonstrably mis-printed. Compositions never generated are not observed.",
         "DESIGN.md §3 C01"),
 "C14": ("exploration",
         "differential runtime oracle: generated NumPy-like Python program executed with real NumPy vs a pure-NumPy shadow of the same program; argument/bound-data monitors",
         "Tens of thousands of random static-shape programs go through generate_numpy_like with real NumPy as the array module; generation may refuse with a not-supported error (counted), otherwise the call must succeed, every output must have NumPy's shape and values (exact for int/bool, Monte-Carlo-arithmetic tolerance otherwise), the function's parameters must be user input / bound names only and bound values must be the wrapped objects, unmodified.",
         "Real NumPy stands in for the NumPy-compatible module; JAX is not installed, so jax-specific behaviour is not observed. Result-dtype-only deviations are counted, not judged (they follow from C03 findings).",
         "DESIGN.md §3 C14"),
 "C07": ("exploration",
         "metamorphic runtime oracle: compiled outputs of one program under many tag assignments (implementation strategies, naming tags, user tags on arrays/axes/reductions, all-stripped) vs the untagged baseline and the NumPy shadow; kernel-structure monitor proving the tags took effect",
         "Each program is generated, compiled and executed once untagged and then under 6-14 tag assignments; a variant must keep output names, declared shapes/dtypes and agree with the baseline to 8 ulp. Only variants whose kernel structure (temporaries, substitution rules, instructions, iname/argument tags, names) differs from the baseline count as non-trivial. Failing assignments are minimised and keyed by (tag kind @ node op).",
         "As C01. ImplementationStrategy tags are unique per array, so at most one strategy per node. Named collisions (ValueError) are legal outcomes.",
         "DESIGN.md §3 C07"),
 "C15": ("exploration",
         "adversarial-naming runtime monitor: names of the generated kernel (arguments, temporaries, inames, substitution rules, bound arguments) checked against user names fed back from a first code generation pass of the same program; execution with pairwise-distinct inputs exposes aliasing",
         "For each program a first codegen pass collects every name the generator invents; user input names, output keys and Named/PrefixNamed tags are then drawn from those names, one-edit neighbours and near-reserved names (7 scenarios incl. reserved-pattern names, output key = input name, naming tags on wrapped data, two distinct same-named inputs). The kernel's name spaces must be disjoint, placeholders and outputs must appear under exactly their names, generated names must stay in _pt_ or derive from a naming tag, NameClashError must be raised for distinct same-named inputs, bound data must be the wrapped objects, and values must equal the default-named baseline/NumPy. Size parameters get the same feedback treatment on a symbolic program (every generated name, PrefixNamed/Named tags used as the size parameter's name).",
         "As C01 for execution. For user names that collide with each other or lie in reserved regions either an error or correct values is accepted.",
         "DESIGN.md §3 C15"),
 "C11": ("exploration",
         "runtime access monitor + sanitizers: kernel-level interpreter emitting a per-axis bounds event for every in-mask subscript at every iteration point, AddressSanitizer/UBSan on the compiled kernel with exact-size heap buffers, canary words in the C runner; symbolic-shape kernels executed at every size valuation 0..6",
         "Every generated kernel is interpreted instruction by instruction over its full iteration box with validity masks (accesses under conditionals are only required to be in bounds where evaluated); any non-data-dependent subscript outside [0, extent) on any axis, any read of an unwritten element, any sanitizer report and any canary corruption is a violation. One compiled kernel per symbolic program is run at all 7^d size valuations (d<=2 complete, d=3 sampled incl. all corners).",
         "Decides the property for all loop indices at each EXECUTED size only (0..6): the statement's 'all sizes, symbolically' is out of reach of runtime monitoring (DESIGN.md §3 C11 / §8). loopy's lowering of subscripts to flat offsets is covered by ASan/canaries, not by the interpreter.",
         "DESIGN.md §3 C11"),
 "C16": ("exploration",
         "runtime decision oracle by execution: are_shape_components_equal and the derived acceptance decisions compared with evaluation of both affine expressions on the spanning grid {0,1,2}^d; inferred shapes and outputs of ONE compiled kernel compared with the NumPy shadow at every size valuation",
         "(a) every coefficient tuple in [-3,3] for one parameter and sampled/complete tuples for 2-3 parameters, each written in random syntactic forms (operand order, grouping, n+n+n, redundant terms), decided by the real function in both argument orders and through broadcasting, stack, einsum and call-argument checking; agreement on {0,1,2}^d decides equality of affine functions completely. (b) .shape of every node of symbolic programs evaluated at valuations equals NumPy's. (c) one compilation per program, executed at all valuations 0..6 (d<=2) or 60 sampled (d=3), values vs NumPy.",
         "Operations restricted to those the quantifier lists. Sizes > 6 and coefficients outside [-3,3] are not observed. Execution as C01.",
         "DESIGN.md §3 C16"),
 "C03": ("exploration",
         "differential construction-time oracle: shape/dtype/acceptance of every public operator and array function vs NumPy on concrete operands, full operand-kind x dtype-pair x shape-relation product; first-deviation monitor over every intermediate node of random programs",
         "Runs the real constructors over the complete grid (13 dtypes incl. all ints/uints/complex64, array / Python-scalar / NumPy-scalar operands in both positions, broadcastable and non-broadcastable shape pairs, every axis argument in [-ndim-1, ndim+1], all int indices and a slice grid on axis lengths 0..6, reshape/einsum/stack error cases) and reads .shape/.dtype immediately. NumPy-ok/pytato-ok pairs must agree; a NumPy shape/axis/index error that pytato accepts (or only reports on .shape access) is a violation; pytato being stricter is allowed. Deviations are keyed per grid cell (function, operand kinds, dtype classes) so a known cell never hides a new one.",
         "The installed NumPy's promotion rules are the reference. Shapes with more than 3 axes / lengths > 6 are only covered through the random programs.",
         "DESIGN.md §3 C03"),
 "C04": ("exploration",
         "reflective one-field mutation monitor over a node-kind-complete graph corpus: ==, !=, hash and dict membership observed for rebuilt copies, every (node kind, field) mutant and its ancestors (congruence), law triples, in-process and cross-process (other hash seed) pickle round trips",
         "Every dataclass field of every node kind (incl. named results, traced calls, loopy calls, CSR, send/recv) is mutated reflectively in several graph contexts; the mutant must be unequal in both directions at the node and at every ancestor, rebuilt copies and mapping-order variants must be equal with equal hashes, unpickled graphs in a fresh interpreter with another PYTHONHASHSEED must equal the graph rebuilt there, hash equally and carry no cached _hash_value.",
         "non_equality_tags (documented) and the derived tags/axes of NamedCallResult are exempt. loopy's TranslationUnit hash is trusted base (it is not stable across pickling; attributed, not reported).",
         "DESIGN.md §3 C04"),
 "C18": ("exploration",
         "collision/stability monitor on the real key builder: keys of rebuilt, unpickled and cross-process (distinct PYTHONHASHSEED) copies must coincide; keys of every reflective one-field mutant and of wrapped-data variants (one element, dtype with identical bytes, shape with identical bytes, views) must differ",
         "The C04 corpus and mutator drive PytatoKeyBuilder: for each graph the key is computed here, for a rebuilt copy, after pickling, and in 3-8 child interpreters with different hash seeds (built there and unpickled there); every (node kind, field) mutant substituted into the root graph must change the key; data-wrapper variants check contents, dtype and shape sensitivity and insensitivity to memory layout.",
         "Creation-traceback tagging off (default). Injectivity is observed on one-component differences only.",
         "DESIGN.md §3 C18"),
 "C13": ("exploration",
         "mapper event trace + reflective oracle: every map_* method of every Mapper class is wrapped in place at harness start and logs (mapper, node, extra-args) events; per application the event log is checked for exactly-once per distinct node, the visited set is compared with a dataclass-reflection walk that shares no code with the mappers, and results are checked for identity, node-count and sharing preservation; duplicate twins test collision reporting",
         "About 25 public mapper-based functions/classes are applied to every graph of a node-kind-complete, hash-consed corpus (diamonds, ladders up to depth 60 with exponential path count, one node used through operand/shape/index/CSR/send/binding edges, traced calls, distributed nodes, symbolic shapes). Monitors: (1) each cached mapper's per-node method fires once per (mapper instance, node[, extra args]); a logical event budget turns exponential re-traversal into a violation instead of a hang; (2) every node the reflective walk finds is visited; (3) identity transforms return their argument, no transform returns more distinct nodes or structurally equal distinct nodes; (4) a graph with one cloned twin must raise the cache-collision error in CopyMapper and deduplicate must merge it; (5) single-change oracle: map_and_copy that tags ONE node -- afterwards the old node may not be reachable through any kind of edge and the node count is unchanged. Ladders reconverge through operand, index, stack/concatenate, einsum, where, roll, call-binding and CSR edges.",
         "Documented conventions are encoded, not judged: no mapper descends into NormalizedSlice bounds, dead-code elimination does not enter zeros_like operands, function bodies are entered by clone_for_callee mappers only, context mappers (einsum no-broadcast rewriter) legitimately revisit per context. Mappers not in the application table are not observed.",
         "DESIGN.md §3 C13"),
 "C20": ("exploration",
         "reference-model monitor: return values of every graph analysis compared with sets computed by a dataclass-reflection walk (no shared code with the mappers) and with each other; documented edge conventions encoded in a table; twin-duplicate and randomly tagged/stored variants",
         "For each corpus graph (every node kind and edge kind, hash-consed; plus one variant with a structurally equal twin, one with random ImplStored tags and one with two random tag types): predecessors of every node (list and set variants, with/without functions) must contain every field child with its multiplicity and nothing but field children and computed-shape components; get_list_of_users/get_nusers must be the converse of pytato's own predecessor relation with multiplicity and contain every field edge; get_users must agree with it on array users and rec_get_user_nodes must be its transitive closure; the topological order must list every array once and after all its children; node/type counts and multiplicities must equal distinct nodes / distinct objects; tag counts must equal the tagged nodes; the materialised set must contain every input, receive, call-bound and stored node (+ outputs when asked) and nothing outside those plus documented by-type members.",
         "Documented conventions (send payload is not a use; dictionaries are not users; calls are transparent in UsersCollector; analyses stay in the call-site namespace; NormalizedSlice bounds are never traversed; computed-shape components may be reported) are tolerated and counted. Node equality/hash trusted as checked by C04.",
         "DESIGN.md §3 C20"),
 "C05": ("exploration",
         "metamorphic runtime oracle: reference evaluation of T(g) vs reference evaluation of g for every transformation and random pipelines; frozen-input monitor (structural fingerprint incl. object identity of wrapped data, bytes of wrapped arrays, read-only buffers); idempotence and tags-only monitors; sampled compiled execution",
         "Programs of C01's space are built with random pre-tags (arrays, axes, reductions, implementation strategies), in three shapes (hash-consed, natural with duplicates, one injected twin) plus aliasing wrappers over one buffer; each of CopyMapper, map_and_copy(id), deduplicate, deduplicate_data_wrappers, eliminate_dead_code, materialize_with_mpms, unify_axes_tags and code-generation preprocessing/lowering, and two random pipelines of length 2-4, is applied. Output names, declared shape/dtype, value under the reference evaluator (bitwise for copy-like transformations, Monte-Carlo-arithmetic tolerance after lowering), fingerprint of the input before/after, bytes of wrapped data, T(T g) == T g and tag-stripped equality are checked on every application; one in 6-16 cases is also compiled and executed.",
         "vf.oracle.refeval is the meaning of a graph; cases where it disagrees with the NumPy shadow on the untransformed graph are skipped (C01/C02's business). Collision/duplicate errors on inputs that contain duplicates are the documented refusal.",
         "DESIGN.md §3 C05"),
 "C06": ("exploration",
         "metamorphic runtime oracle with exhaustive policy enumeration: reference evaluation of the rewritten graph vs the original for EVERY distribution policy (per einsum: none or operand i) and for the no-broadcast rewrite; sampled compiled execution",
         "Expressions with 1..5 einsums/matmuls/dots over trees of + - * / (arrays and Python/NumPy scalars in either position), powers, math functions, indexing, reshapes, transposes and unit-axis broadcasts; the complete policy product (<= 125 quick / 400 thorough, otherwise all single-einsum policies plus random mixtures) is applied through the real callback interface, each result evaluated and compared (exact for integers, Monte-Carlo-arithmetic + scale-aware re-association tolerance otherwise); rewrite_einsums_with_no_broadcasts is compared the same way and its result must not broadcast any unit axis. Violations are keyed by the operation on top of the distributed operand.",
         "RuntimeError('Cannot distribute composed einsums') is the documented refusal. pad/astype/roll lambdas (outside the quantifier; the raiser answers 'unknown' and the mapper does not catch it) are not generated -- noted in DESIGN.md §8.",
         "DESIGN.md §3 C06"),
 "C12": ("exploration",
         "differential runtime oracle: trace_call of a generated function under random call conventions vs the direct application of the same Python function (declared shape/dtype, reference evaluation), inlining monitor (no Call node left, values, structural inverse), sampled compiled execution; directed same-typed-parameter cases",
         "Programs of C01's space become the body of a Python function over their placeholder inputs (wrapped data stays inside the body). Each is called directly and through trace_call with positional / keyword / mixed arguments, one of the three return conventions, nesting depth 1-3, repeated calls (same definition re-called, or re-traced) with other arguments, argument expressions that share nodes or are themselves call results, and caller placeholders named exactly like the parameter placeholders trace_call invents. Monitors: results have the direct application's shape/dtype; the call graph evaluates bitwise like the direct application; after tag_all_calls_to_be_inlined + inline_calls no Call node is left (reflective walk and get_num_call_sites), output names and values are unchanged and the inlined graph is structurally the direct application; one in 6-12 is compiled. 162 directed cases with three same-typed parameters in a non-commutative body cover every convention x depth x naming.",
         "Functions closing over caller placeholders are outside trace_call's contract: every placeholder input is a parameter. vf.oracle.refeval's Call rule (fresh environment of evaluated bindings) is the meaning of a call.",
         "DESIGN.md §3 C12"),
 "C08": ("exploration",
         "controlled-scheduler runtime monitor: the real partitioner and executor run on every rank of a simulated mpi4py whose scheduler owns every choice MPI leaves open (which rank proceeds at each MPI call, which subset of completable receives Waitsome reports); exhaustive stateless DFS over the choice tree for small instances, adversarial random schedules beyond; offline checker over the recorded event log (deadlock/bounded progress, values vs global reference, context set/get/del discipline, exactly-once message delivery, part order)",
         "Multi-rank programs (1-4 ranks, 0-6 messages; rings, stars, chains, several messages per pair, forwarded and unchanged received data, send holders as payloads, receives used only through a holder, outputs that are inputs / receives, ImplStored anywhere, tags of six hashable types) are partitioned with the real collective code; every execution logs part runs, Isend/Irecv/completions, Waitsome results and every context access through a monitored mapping; all ranks must return within a step budget, outputs must equal plain NumPy evaluation of the global data flow bitwise, no name may be read before it is set or after it is released, each message must be consumed exactly once by a receive with equal (src,dst,tag), shape and dtype. Instances with <= 3 ranks and <= 4 messages are explored exhaustively up to a cap (counted); one in ten programs also runs its parts through generate_loopy + the C runner.",
         "The simulated MPI models eager non-blocking sends, non-overtaking delivery and any-non-empty-subset Waitsome; behaviours of real MPI libraries outside the standard are not modelled. 'All schedules' is decided only where the DFS exhausts the tree (evidence: exhaustive_programs).",
         "DESIGN.md §3 C08"),
 "C09": ("exploration",
         "structural invariant monitor over the partitions every rank obtains from the real collective code on the simulated MPI: independent checker of every clause (names read are taken from a reflective walk of the part expressions, then the part's bookkeeping must match); cross-rank matching of sends/receives and of numbered tags; second world with one interpreter process per rank (own PYTHONHASHSEED, own allocation history, pickled collectives relayed by the parent)",
         "For every program of C08's space (all of them; tags of six hashable kinds) find_distributed_partition, verify_distributed_partition and number_distributed_tags run on every rank under a random collective schedule. Checked per rank and globally, before and after numbering: single producer of each overall output and sent name; every placeholder a part reads is a user input, received by this or an earlier part, or an output of an earlier part, and equals the declared input sets; received names are no outputs, sent names are; no DistributedRecv / send holder inside a part expression or send payload; needed_pids acyclic; every message of the program appears once at each end with equal shape/dtype; the send-part -> receive-part graph over all ranks is acyclic; integer tags are equal at both ends, distinct within a rank pair, next_tag equal on all ranks; the result is independent of the collective schedule and identical (summary + expression fingerprints) when each rank runs in its own process with another hash seed.",
         "Simulated collectives (payloads pickled per rank). Process world on a sample (16 quick / 160 thorough programs with >= 2 ranks and >= 2 parts).",
         "DESIGN.md §3 C09"),
 "C10": ("fault_enumeration",
         "fault enumeration with an independent well-formedness oracle: every single fault of the quantifier at every communication operation of every generated valid program (plus cancelling and random pairs) is run through the real find/verify on the simulated MPI; expected outcome decided from the harness's own global description; undiagnosed ill-formed programs are executed under adversarial schedules",
         "Faults: drop / duplicate / retag / redirect (to every other rank, incl. self) one send or one receive, and a dependency closing a cross-rank cycle, at every live communication operation; pairs: the same retag at both ends (cancels: must be accepted), random second faults. Ill-formed (from the description: unmatched, duplicated, self, cyclic) => at least one rank must raise a diagnostic (DistributedPartitionVerificationError family, CycleError, PartitionInducedCycleError, the self-send/receive NotImplementedError); any other exception type, or no exception (then the partition is executed: deadlock / livelock / crash / lost message / silent success reported) is a violation. Well-formed => no rank may raise and execution must reproduce the global reference. A sample of the faulted programs is judged again in an interpreter started with python -O (asserts and __debug__ blocks gone).",
         "Ranks blocked in a collective after another rank raised are treated as aborted (MPI_Abort). Structurally equal duplicate receives are one node by pytato's value semantics, so injected duplicates are made distinguishable by a tag. Under python -O the same oracle is applied to a sample (60 quick / 400 thorough faulted programs per shard).",
         "DESIGN.md §3 C10"),
 "C17": ("exploration",
         "cross-process differential monitor: the same program texts are handed to 3-6 fresh interpreters with different PYTHONHASHSEED and allocation histories; each emits the canonical kernel description, the C source, the numpy-like Python source and argument lists, per-rank partition summaries and the tag numbering (simulated MPI), each twice; the parent compares byte for byte",
         "256 (quick) / 4000 (thorough) programs of C01's space and 128 / 2400 multi-rank programs of C08's space per run. Artefacts: kernel description built from the kernel's components (arguments, domains, temporaries, substitution rules, inames+tags, instructions in order with sorted iname/dependency sets), loopy's C text, generate_numpy_like's source plus expected/bound argument names, partition summaries with expression fingerprints for every rank, symbolic->integer tag map and next_tag. Any difference between two processes or between two generations in one process is a violation, classified by the kind of line that differs.",
         "str(kernel) is not used (loopy prints its own frozensets in set order). Tags that are frozensets are rendered canonically by the harness. loopy's C generation is trusted to be a function of the kernel.",
         "DESIGN.md §3 C17"),
}

NOT_YET = {
}


def main() -> None:
    props = [json.loads(l) for l in open(os.path.join(ROOT, "properties.jsonl"))]
    checks = []
    na = []
    for p in props:
        pid = p["id"]
        if pid in CHECKS and os.path.exists(os.path.join(ROOT, "vf", "checks", pid.lower() + ".py")):
            cat, tech, text, note, ref = CHECKS[pid]
            checks.append({
                "property_id": pid,
                "quick_cmd": f"{PY} -m vf.cli {pid} --tier quick",
                "thorough_cmd": f"{PY} -m vf.cli {pid} --tier thorough",
                "evidence_file": f"/verif/evidence/{pid}.json",
                "replay_cmd_template": f"{PY} -m vf.cli {pid} --replay {{path}}",
                "engine": "vf",
                "level_claimed": {"category": cat, "text": text, "design_ref": ref},
                "level_note": note,
                "technique": tech,
            })
        else:
            na.append({"property_id": pid,
                       "reason": NOT_YET.get(pid, "check not built yet in this session "
                                             "(runtime monitor designed in DESIGN.md §3; "
                                             "not claimed until it runs silent on the unchanged tree)")})
    m = {
        "version": 1,
        "setup_cmd": f"{PY} tools/setup_check.py",
        "hooks": {
            "guard": "PYTATO_VERIF",
            "enable": "no source hooks are needed: every observation point is reached from outside "
                      "(harness targets/communicators, in-place wrapping of class attributes at harness "
                      "start, reflective walks); checks set PYTATO_VERIF=1 for uniformity",
            "baseline_off_cmd": "cd /repo && /venv/bin/python -m pytest -ra -q -p no:cacheprovider "
                                "--timeout=900 --continue-on-collection-errors",
            "source_commits": [],
            "add_only": True,
        },
        "engines": [{"name": "vf", "path": "/verif/vf",
                     "serves_properties": [c["property_id"] for c in checks],
                     "kind_free_text": "runtime monitors + differential oracles over executions of the real pytato code; "
                                       "sharded worker subprocesses; three-valued verdicts"}],
        "checks": checks,
        "not_applicable": na,
        "notes": "Exit 0 = held on everything observed; exit 1 + VIOLATION line = new violation; exit 2 + INCONCLUSIVE line = "
                 "deciding monitor under-exercised or a watchdog fired (never folded into held). Known findings: known_findings.json "
                 "(keyed by mechanism). pytato is imported from $VERIF_REPO (default /repo).",
    }
    json.dump(m, open(os.path.join(ROOT, "MANIFEST.json"), "w"), indent=1)
    try:
        import jsonschema
        jsonschema.validate(m, json.load(open("/root/.vp/MANIFEST.schema.json")))
        print("MANIFEST valid;", len(checks), "checks;", len(na), "not_applicable")
    except ImportError:
        print("jsonschema not available; wrote MANIFEST (", len(checks), "checks )")


if __name__ == "__main__":
    main()
