#!/venv/bin/python
import json, sys, glob
for f in sorted(glob.glob(sys.argv[1])):
    d = json.load(open(f))
    print("==", f, d["key"], "count", d.get("count_this_run"))
    print("  ", d["what"][:300])
    w = d["witness"]
    if isinstance(w, dict):
        for k, v in w.items():
            if k == "spec":
                print("   spec.inputs:", json.dumps(v["inputs"])[:600])
                for n in v["nodes"]:
                    print("     ", json.dumps(n)[:200])
                print("   spec.outputs:", v["outputs"], "profile", v.get("profile"), "vseed", v.get("vseed"))
            else:
                print("  ", k, ":", json.dumps(v)[:int(sys.argv[2]) if len(sys.argv) > 2 else 700])
