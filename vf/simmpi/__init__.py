"""Simulated mpi4py for one process: ranks are threads that run ONE AT A TIME under a
scheduler that owns every non-deterministic choice MPI leaves open:

  * which runnable rank proceeds next (a rank yields at every MPI call),
  * which non-empty subset of the completable requests ``Waitsome`` reports.

Choices come from a *chooser* (replayable decision list, exhaustive DFS driver or seeded
random), so a run is a pure function of its decision sequence.  Point-to-point semantics:
eager non-blocking sends, non-overtaking per (source, destination, tag), receives match in
posting order.  Collectives complete when every live rank has entered the same collective;
payloads are pickled per receiving rank (as mpi4py does), so ranks never share objects.

The module installs itself as ``mpi4py`` / ``mpi4py.MPI`` in ``sys.modules`` (mpi4py is
not installed in this sandbox) -- pytato's distributed code imports it by that name.
"""
from __future__ import annotations

import pickle
import sys
import threading
import types
from typing import Any, Callable


class SimAbort(BaseException):
    """Raised inside a rank thread when the world is torn down (deadlock, abort after
    another rank raised, step limit)."""


class StepLimit(SimAbort):
    pass


# ------------------------------------------------------------------ choosers

class Chooser:
    """Base: ``choose(kind, n)`` -> int in [0, n).  Records (kind, n, choice)."""
    def __init__(self) -> None:
        self.trace: list[tuple[str, int, int]] = []

    def pick(self, kind: str, n: int) -> int:
        raise NotImplementedError

    def choose(self, kind: str, n: int) -> int:
        if n <= 1:
            return 0
        c = self.pick(kind, n)
        self.trace.append((kind, n, c))
        return c


class ReplayChooser(Chooser):
    """Follows *prefix* (list of ints), then always 0 (first option)."""
    def __init__(self, prefix: list[int]) -> None:
        super().__init__()
        self.prefix = list(prefix)
        self.pos = 0

    def pick(self, kind: str, n: int) -> int:
        if self.pos < len(self.prefix):
            c = self.prefix[self.pos]
            self.pos += 1
            return c % n
        self.pos += 1
        return 0


class RandomChooser(Chooser):
    """Seeded random with a *style* bias: 'uniform', 'last' (latest option first:
    latest-posted request, highest rank), 'first', 'starve<k>' (rank k runs only when
    nothing else can), 'all' (Waitsome reports everything), 'one' (one at a time)."""
    def __init__(self, seed: int, style: str = "uniform") -> None:
        super().__init__()
        import random
        self.rng = random.Random(seed)
        self.style = style

    def pick(self, kind: str, n: int) -> int:
        s = self.style
        if s == "last":
            return n - 1 if self.rng.random() < 0.8 else self.rng.randrange(n)
        if s == "first":
            return 0 if self.rng.random() < 0.8 else self.rng.randrange(n)
        if kind == "waitsome":
            if s == "all":
                return n - 1        # the last subset is "all completable"
            if s == "one":
                return self.rng.randrange(min(n, 8)) if n > 1 else 0
        return self.rng.randrange(n)


# ------------------------------------------------------------------ requests

class Request:
    def __init__(self, world: "World", rank: int, kind: str, key: tuple[int, int, Any],
                 buf: Any = None) -> None:
        self.world = world
        self.rank = rank
        self.kind = kind          # "send" | "recv"
        self.key = key            # (src, dst, tag)
        self.buf = buf
        self.done = kind == "send"
        self.seq = -1             # position among receives posted for this key

    def Wait(self) -> None:  # noqa: N802
        w = self.world
        w.yield_(self.rank, "Wait")
        if self.done:
            return
        w.block_until(self.rank, lambda: w.completable(self), "Wait")
        w.complete(self)

    def Test(self) -> bool:  # noqa: N802
        return self.done

    @staticmethod
    def Waitsome(requests: list["Request"]) -> list[int] | None:  # noqa: N802
        if not requests:
            # MPI: no active handles -> MPI_UNDEFINED -> mpi4py returns None
            w0 = _CURRENT.world
            if w0 is not None:
                w0.yield_(w0.current_rank(), "Waitsome(empty)")
            return None
        w = requests[0].world
        rank = requests[0].rank
        w.yield_(rank, "Waitsome")
        active = [i for i, r in enumerate(requests) if not r.done]
        if not active:
            return None
        w.block_until(rank, lambda: any(w.completable(requests[i]) for i in active),
                      "Waitsome")
        ready = [i for i in active if w.completable(requests[i])]
        # non-empty subsets of `ready`, ordered: singletons first ... the full set last
        n = len(ready)
        if n <= 4:
            subsets = sorted(range(1, 2 ** n), key=lambda m: (bin(m).count("1"), m))
            m = subsets[w.chooser.choose("waitsome", len(subsets))]
            chosen = [ready[j] for j in range(n) if m >> j & 1]
        else:
            # singletons, then the full set (keeps the branching finite)
            c = w.chooser.choose("waitsome", n + 1)
            chosen = [ready[c]] if c < n else list(ready)
        for i in chosen:
            w.complete(requests[i])
        w.log(rank, "waitsome", {"returned": [requests[i].key for i in chosen],
                                 "ready": len(ready), "pending": len(active)})
        return chosen


class Op:
    def __init__(self, fn: Callable[..., Any], commute: bool) -> None:
        self.fn = fn
        self.commute = commute
        self.freed = False

    @staticmethod
    def Create(fn: Callable[..., Any], commute: bool = False) -> "Op":  # noqa: N802
        return Op(fn, commute)

    def Free(self) -> None:  # noqa: N802
        self.freed = True


class _Current(threading.local):
    world: Any = None
    rank: int = -1


_CURRENT = _Current()


# ------------------------------------------------------------------ the world

class World:
    def __init__(self, size: int, chooser: Chooser, step_limit: int = 20000) -> None:
        self.size = size
        self.chooser = chooser
        self.step_limit = step_limit
        self.events: list[tuple[int, int, str, Any]] = []
        self.step = 0
        self.mail: dict[tuple[int, int, Any], list[Any]] = {}      # key -> messages
        self.taken: dict[tuple[int, int, Any], int] = {}            # key -> #delivered
        self.posted: dict[tuple[int, int, Any], int] = {}           # key -> #recvs posted
        self.results: dict[int, Any] = {}
        self.errors: dict[int, BaseException] = {}
        self.state: dict[int, str] = {}          # rank -> "ready" | "blocked" | "done"
        self.block_pred: dict[int, Callable[[], bool]] = {}
        self.block_what: dict[int, str] = {}
        self.coll: dict[int, list[Any]] = {}     # collective seq -> per-rank entries
        self.coll_seq: dict[int, int] = {}
        self.coll_out: dict[tuple[int, int], Any] = {}
        self.go: dict[int, threading.Event] = {}
        self.back = threading.Event()
        self.abort_reason: str | None = None
        self.deadlock = False
        self.aborted_ranks: set[int] = set()
        self.mismatches: list[dict[str, Any]] = []
        self.steps_of: dict[int, int] = {}

    # -- logging
    def log(self, rank: int, kind: str, data: Any = None) -> None:
        self.events.append((self.step, rank, kind, data))

    def current_rank(self) -> int:
        return _CURRENT.rank

    # -- scheduling primitives (called from rank threads)
    def _hand_back(self, rank: int) -> None:
        self.go[rank].clear()
        self.back.set()
        self.go[rank].wait()
        if self.abort_reason is not None:
            raise SimAbort(self.abort_reason)

    def yield_(self, rank: int, what: str) -> None:
        self.steps_of[rank] = self.steps_of.get(rank, 0) + 1
        if self.steps_of[rank] > self.step_limit:
            self.log(rank, "step-limit", what)
            raise StepLimit(f"rank {rank}: more than {self.step_limit} MPI calls")
        self.state[rank] = "ready"
        self._hand_back(rank)

    def block_until(self, rank: int, pred: Callable[[], bool], what: str) -> None:
        while not pred():
            self.state[rank] = "blocked"
            self.block_pred[rank] = pred
            self.block_what[rank] = what
            self._hand_back(rank)
        self.state[rank] = "ready"

    # -- point to point
    def completable(self, req: Request) -> bool:
        if req.done:
            return True
        if req.kind == "send":
            return True
        return len(self.mail.get(req.key, [])) > req.seq

    def complete(self, req: Request) -> None:
        if req.done:
            return
        import numpy as np
        msg = self.mail[req.key][req.seq]
        self.taken[req.key] = self.taken.get(req.key, 0) + 1
        buf = req.buf
        ok = (tuple(msg.shape) == tuple(buf.shape) and msg.dtype == buf.dtype)
        if not ok:
            self.mismatches.append({"key": req.key, "sent": (tuple(msg.shape), str(msg.dtype)),
                                    "posted": (tuple(buf.shape), str(buf.dtype))})
            if msg.nbytes == buf.nbytes:
                buf.reshape(-1).view(np.uint8)[...] = msg.reshape(-1).view(np.uint8)
        elif buf.size:
            buf[...] = msg
        req.done = True
        self.log(req.rank, "recv-complete", {"key": req.key, "bytes": int(msg.nbytes)})

    # -- run
    def run(self, fns: list[Callable[["Comm"], Any]]) -> None:
        threads = []
        for r in range(self.size):
            self.go[r] = threading.Event()
            self.state[r] = "ready"
            comm = Comm(self, r)

            def body(r: int = r, comm: Comm = comm) -> None:
                _CURRENT.world = self
                _CURRENT.rank = r
                self.go[r].wait()
                try:
                    if self.abort_reason is not None:
                        raise SimAbort(self.abort_reason)
                    self.results[r] = fns[r](comm)
                    self.log(r, "finished")
                except SimAbort:
                    self.aborted_ranks.add(r)
                except BaseException as e:  # noqa: BLE001
                    self.errors[r] = e
                    self.log(r, "raised", type(e).__name__)
                finally:
                    self.state[r] = "done"
                    self.back.set()
            t = threading.Thread(target=body, daemon=True)
            threads.append(t)
            t.start()
        while True:
            live = [r for r in range(self.size) if self.state[r] != "done"]
            if not live:
                break
            # unblock ranks whose predicate became true
            for r in live:
                if self.state[r] == "blocked":
                    try:
                        if self.block_pred[r]():
                            self.state[r] = "ready"
                    except Exception:  # noqa: BLE001
                        pass
            enabled = [r for r in live if self.state[r] == "ready"]
            if not enabled:
                # nothing can move
                if self.errors:
                    self.abort_reason = "abort: another rank raised"
                else:
                    self.deadlock = True
                    self.abort_reason = "deadlock"
                    self.log(-1, "deadlock", {r: self.block_what.get(r) for r in live})
                for r in live:
                    self.back.clear()
                    self.go[r].set()
                    self.back.wait()
                continue
            r = enabled[self.chooser.choose("rank", len(enabled))]
            self.step += 1
            self.back.clear()
            self.go[r].set()
            self.back.wait()
        for t in threads:
            t.join(timeout=5)


class Comm:
    def __init__(self, world: World, rank: int) -> None:
        self.world = world
        self.rank = rank
        self.size = world.size

    def Get_rank(self) -> int:  # noqa: N802
        return self.rank

    def Get_size(self) -> int:  # noqa: N802
        return self.size

    # -- point to point
    def Isend(self, data: Any, dest: int, tag: Any = 0) -> Request:  # noqa: N802
        import numpy as np
        w = self.world
        w.yield_(self.rank, "Isend")
        key = (self.rank, dest, tag)
        w.mail.setdefault(key, []).append(np.array(data, copy=True))
        w.log(self.rank, "isend", {"key": key, "bytes": int(np.asarray(data).nbytes)})
        return Request(w, self.rank, "send", key)

    def Irecv(self, buf: Any, source: int, tag: Any = 0) -> Request:  # noqa: N802
        w = self.world
        w.yield_(self.rank, "Irecv")
        key = (source, self.rank, tag)
        req = Request(w, self.rank, "recv", key, buf)
        req.seq = w.posted.get(key, 0)
        w.posted[key] = req.seq + 1
        w.log(self.rank, "irecv", {"key": key})
        return req

    # -- collectives
    def _collective(self, name: str, value: Any, combine: Callable[[list[Any]], list[Any]]
                    ) -> Any:
        w = self.world
        seq = w.coll_seq.get(self.rank, 0)
        w.coll_seq[self.rank] = seq + 1
        w.yield_(self.rank, name)
        entries = w.coll.setdefault(seq, [None] * self.size)
        entries[self.rank] = (name, pickle.dumps(value))
        w.log(self.rank, "collective-enter", {"seq": seq, "name": name})
        w.block_until(self.rank, lambda: all(e is not None for e in w.coll[seq]), name)
        names = {e[0] for e in w.coll[seq]}
        if len(names) != 1:
            raise RuntimeError(f"ranks disagree on collective #{seq}: {sorted(names)}")
        if (seq, -1) not in w.coll_out:
            vals = [pickle.loads(e[1]) for e in w.coll[seq]]
            outs = combine(vals)
            for r in range(self.size):
                w.coll_out[(seq, r)] = pickle.dumps(outs[r])
            w.coll_out[(seq, -1)] = True
        return pickle.loads(w.coll_out[(seq, self.rank)])

    def bcast(self, obj: Any = None, root: int = 0) -> Any:
        return self._collective("bcast", obj, lambda vals: [vals[root]] * len(vals))

    def gather(self, obj: Any, root: int = 0) -> Any:
        return self._collective(
            "gather", obj,
            lambda vals: [list(vals) if r == root else None for r in range(len(vals))])

    def allgather(self, obj: Any) -> Any:
        return self._collective("allgather", obj, lambda vals: [list(vals)] * len(vals))

    def barrier(self) -> None:
        self._collective("barrier", None, lambda vals: [None] * len(vals))

    Barrier = barrier

    def allreduce(self, obj: Any, op: Any = None) -> Any:
        def comb(vals: list[Any]) -> list[Any]:
            acc = vals[0]
            for v in vals[1:]:
                acc = op.fn(acc, v, None) if isinstance(op, Op) else acc + v
            return [acc] * len(vals)
        return self._collective("allreduce", obj, comb)


def install() -> None:
    """Register this module as mpi4py / mpi4py.MPI and neutralise the one pyopencl call the
    executor makes (``pyopencl.array.to_device``): received buffers stay NumPy arrays."""
    if "mpi4py" in sys.modules and getattr(sys.modules["mpi4py"], "_vf_sim", False):
        return
    pkg = types.ModuleType("mpi4py")
    pkg._vf_sim = True              # type: ignore[attr-defined]
    mpi = types.ModuleType("mpi4py.MPI")
    mpi.Request = Request           # type: ignore[attr-defined]
    mpi.Op = Op                     # type: ignore[attr-defined]
    mpi.Comm = Comm                 # type: ignore[attr-defined]
    pkg.MPI = mpi                   # type: ignore[attr-defined]
    sys.modules["mpi4py"] = pkg
    sys.modules["mpi4py.MPI"] = mpi
    try:
        import numpy as np
        import pyopencl.array as cla

        def to_device(queue: Any, ary: Any, allocator: Any = None, **kw: Any) -> Any:
            return np.array(ary, copy=True)
        cla.to_device = to_device   # type: ignore[assignment]
    except Exception:  # noqa: BLE001
        pass
