"""C11 -- generated kernels are memory-safe for every admissible size.

Events: (a) access events of the kernel-level interpreter: every subscript of every
instruction at every iteration point with per-axis extents, reads of never-written
temporaries; (b) AddressSanitizer / UBSan reports from the real compiled kernel run on
exact-size heap buffers; (c) canary corruption in the C runner.
Oracle: no in-mask subscript outside [0, extent) on any axis (data-dependent indices
excluded as the statement excludes them), no sanitizer report, canaries intact.
Workload: C01 programs (static) + symbolic-shape programs executed for EVERY valuation
0..6 of every size parameter (one compilation per program).
"""
from __future__ import annotations

import itertools
import signal
from typing import Any

import numpy as np

from vf import common
from vf.gen import proggen, symgen
from vf.gen import progspec as ps

LEVEL = "exploration"
RULE = ("static C01 programs (index/zero/mixed/reduce/einsum profiles; 2 value sets + all-true/"
        "all-false boolean inputs) and symbolic-shape programs run at every valuation 0..6 per "
        "size parameter (1-3 parameters; 3-parameter grids sampled); distinct by (spec hash, "
        "valuation); non-trivial = the kernel contains a non-identity subscript (offset, "
        "modulo, floor-div, negative stride, constant) or a guarded (masked) access")
ASSUMPTIONS = [
    "the interpreter evaluates subscripts exactly as written in the kernel pytato emits "
    "(before loopy's passes); loopy's own lowering of those subscripts to flat offsets is "
    "covered by the ASan/canary runs only",
    "sizes >= 7 are not observed: this family cannot decide 'all non-negative sizes' "
    "symbolically (DESIGN.md §3 C11)",
    "ASan red zones of 512 bytes around exact-size heap buffers",
]
MIN_MONITOR = {"mon.kernels_interpreted": 100, "mon.subscripts_checked": 1000,
               "mon.asan_runs": 10, "mon.symbolic_valuations": 50}
SHARD_TIMEOUT = {"quick": 900, "thorough": 7200}
N_STATIC = {"quick": 500, "thorough": 14000}
N_SYMBOLIC = {"quick": 160, "thorough": 4000}
ASAN_EVERY = {"quick": 5, "thorough": 4}
SIZES = list(range(0, 7))


_Timeout = common.Timeout


def plan(tier: str, seed: int) -> list[dict[str, Any]]:
    cases: list[dict[str, Any]] = []
    profiles = ["index", "zero", "mixed", "reduce", "einsum", "index"]
    for i in range(N_STATIC[tier]):
        cases.append({"kind": "static", "seed": common.sub_seed(seed, "c11s", i) & 0x7FFFFFFF,
                      "profile": profiles[i % len(profiles)],
                      "asan": i % ASAN_EVERY[tier] == 0})
    for i in range(N_SYMBOLIC[tier]):
        cases.append({"kind": "symbolic", "seed": common.sub_seed(seed, "c11y", i) & 0x7FFFFFFF,
                      "asan": i % ASAN_EVERY[tier] == 0})
    common.rng_for(seed, "c11-shuffle").shuffle(cases)
    return [{"cases": c} for c in common.split_even(cases, common.NCPU * (1 if tier == "quick"
                                                                          else 4))]


def bool_override(spec: dict[str, Any], value: bool) -> dict[str, Any] | None:
    import copy
    s = copy.deepcopy(spec)
    hit = False
    for i in s["inputs"]:
        if i["dtype"] == "bool" and "data" not in i and i["kind"] == "ph":
            i["data"] = [bool(value)] * int(np.prod(i["shape"], dtype=np.int64))
            hit = True
    return s if hit else None


def observe(bp: Any, cp: Any, env: dict[str, Any], col: common.Collector, wit: dict[str, Any],
            sig: str, asan: bool) -> dict[str, int]:
    """Run the three monitors on one (kernel, inputs) pair."""
    from vf.exec import asan_driver, ctarget, lpinterp
    stats = {"nonid": 0, "masked": 0}
    try:
        it = lpinterp.interpret(bp, env)
        col.count("mon.kernels_interpreted")
        col.count("mon.subscripts_checked", it.n_subscripts)
        col.count("mon.masked_subscripts", it.n_masked_subscripts)
        col.count("mon.nonidentity_subscripts", it.n_nonidentity_subscripts)
        stats = {"nonid": it.n_nonidentity_subscripts, "masked": it.n_masked_subscripts}
        hard = [o for o in it.oob if not o.get("data_dependent")]
        dd = [o for o in it.oob if o.get("data_dependent")]
        if dd:
            col.count("data_dependent_oob_events", len(dd))
        if hard:
            col.violation(f"C11:out-of-bounds-subscript:{sig}",
                          "an array subscript whose index depends only on loop indices and "
                          "size parameters lies outside the array at an executed point",
                          {**wit, "events": hard[:4]})
        if it.rbw:
            col.violation(f"C11:read-of-unwritten-element:{sig}",
                          "an instruction reads a temporary/output element no instruction it "
                          "depends on has written", {**wit, "events": it.rbw[:3]})
    except (lpinterp.Unsupported, lpinterp.UnsupportedExpr) as e:
        col.histo("interp_unsupported", str(e)[:40])
    try:
        rr = ctarget.run(cp, bp, env)
        col.count("mon.canary_runs")
        if rr.canary_violations:
            col.violation(f"C11:canary:{sig}", f"write outside buffer(s) {rr.canary_violations}",
                          wit)
    except ctarget.KernelContractError as e:
        col.histo("kernel_interface", str(e)[:40])
    if asan:
        try:
            ar = asan_driver.run(cp, bp, env, tag="c11")
        except ctarget.KernelContractError as e:
            col.histo("kernel_interface", str(e)[:40])
            return stats
        if ar.build_failed:
            col.histo("asan_build_failed", ar.build_failed[-60:])
        elif ar.timeout:
            col.count("asan_timeouts")
        else:
            col.count("mon.asan_runs")
            if ar.kind is not None:
                col.violation(f"C11:sanitizer:{ar.kind}:{sig}",
                              f"sanitizer report: {ar.kind}", {**wit, "report": ar.report})
    return stats


def check_static(case: dict[str, Any], col: common.Collector) -> None:
    import pytato as pt
    from vf.exec import ctarget
    spec = case.get("spec") or proggen.generate(case["seed"], case["profile"],
                                                opts={"no_loopy": True})
    try:
        b = ps.PtBuild(spec)
        dag = pt.transform.deduplicate(pt.make_dict_of_named_arrays(b.outputs()))
        bp = ctarget.generate(dag)
        cp = ctarget.compile_program(bp)
    except Exception as e:  # noqa: BLE001 -- C01's business
        col.histo("not_generated", type(e).__name__)
        col.case()
        return
    sig = "static"
    has_dw = any(i["kind"] == "dw" for i in spec["inputs"])
    variants: list[tuple[str, dict[str, Any]]] = []
    if not ps.integer_zero_divisor(spec, 0):
        variants.append(("v0", b.env(0)))
    if not has_dw:
        if not ps.integer_zero_divisor(spec, 1):
            variants.append(("v1", b.env(1)))
        for tag, val in (("allT", True), ("allF", False)):
            s2 = bool_override(spec, val)
            # (all-False booleans turn up as integer divisors: SIGFPE, not a memory matter)
            if s2 is not None and not ps.integer_zero_divisor(s2, 0):
                variants.append((tag, ps.PtBuild(s2).env(0)))
            elif s2 is not None:
                col.count("skipped_zero_divisor")
    tot = {"nonid": 0, "masked": 0}
    for k, (tag, env) in enumerate(variants):
        st = observe(bp, cp, env, col, {"spec": spec, "inputs": tag}, sig,
                     bool(case.get("asan")) and k == 0)
        tot = {a: tot[a] + st[a] for a in tot}
    col.case(common.stable_hash(spec), tot["nonid"] > 0 or tot["masked"] > 0,
             {"kind": "static", "ops": ps.node_kinds(spec), "input_sets": [t for t, _ in variants],
              "nonidentity_subscripts": tot["nonid"], "masked_subscripts": tot["masked"]})


def check_symbolic(case: dict[str, Any], col: common.Collector) -> None:
    import pytato as pt
    from vf.exec import ctarget
    spec = case.get("spec") or symgen.generate(case["seed"])
    try:
        sb = symgen.SymBuild(spec)
        dag = pt.transform.deduplicate(pt.make_dict_of_named_arrays(sb.outputs()))
    except NotImplementedError as e:
        col.histo("symbolic_not_supported", common.norm_msg(str(e), 40))
        col.case()
        return
    except Exception as e:  # noqa: BLE001
        col.histo("symbolic_construction_failed", f"{type(e).__name__}:{common.norm_msg(str(e), 40)}")
        col.case()
        return
    try:
        bp = ctarget.generate(dag)
        cp = ctarget.compile_program(bp)
    except ctarget.CodegenFailure as f:
        col.histo("symbolic_codegen_failed", f"{f.stage}:{type(f.exc).__name__}:"
                  f"{common.norm_msg(str(f.exc), 40)}")
        col.case()
        return
    col.count("mon.symbolic_programs")
    params = spec["params"]
    grid = list(itertools.product(SIZES, repeat=len(params)))
    if "valuation" in case:
        grid = [tuple(case["valuation"][p] for p in params)]
    elif len(grid) > 80:
        rng = common.rng_for(spec["vseed"], "grid")
        corners = [g for g in grid if all(x in (0, 1, 6) for x in g)]
        grid = corners + rng.sample(grid, 80 - min(len(corners), 40))
        grid = list(dict.fromkeys(grid))[:90]
    sh = common.stable_hash(spec)
    for gi, g in enumerate(grid):
        val = dict(zip(params, g))
        conc = symgen.instantiate(spec, val)
        if ps.integer_zero_divisor(conc, 0):
            col.count("skipped_zero_divisor")
            continue
        iv = ps.input_values(conc, 0)
        env = {i["name"]: iv[i["id"]] for i in conc["inputs"]}
        knl = bp.program.default_entrypoint
        for p in params:
            if p in knl.arg_dict:
                env[p] = val[p]
        env = {k: v for k, v in env.items() if k in knl.arg_dict}
        col.count("mon.symbolic_valuations")
        st = observe(bp, cp, env, col, {"spec": spec, "valuation": val}, "symbolic",
                     bool(case.get("asan")) and gi in (0, len(grid) // 2, len(grid) - 1))
        col.case(common.stable_hash([sh, val]), st["nonid"] > 0 or st["masked"] > 0,
                 {"kind": "symbolic", "params": params, "valuation": val,
                  "ops": ps.node_kinds(spec),
                  "input_shapes": [i["shape"] for i in spec["inputs"]]})


def check_case(case: dict[str, Any], col: common.Collector) -> None:
    if case.get("kind") == "symbolic" or "params" in (case.get("spec") or {}):
        check_symbolic(case, col)
    else:
        check_static(case, col)


def run_shard(shard: dict[str, Any], col: common.Collector) -> None:
    for case in shard["cases"]:
        try:
            with common.time_limit(240):
                check_case(case, col)
        except common.Timeout:
            col.count("program_timeouts")
        except Exception as e:  # noqa: BLE001
            import traceback
            col.violation(f"C11:harness-exception:{type(e).__name__}@"
                          f"{common.exc_site(e, ('vf',))}",
                          f"unexpected {type(e).__name__}: {str(e)[:200]}",
                          {"case": case, "tb": traceback.format_exc()[-2000:]})
        finally:
            pass


def replay(witness: dict[str, Any], col: common.Collector) -> None:
    if "spec" in witness:
        c: dict[str, Any] = {"spec": witness["spec"], "asan": True}
        if "valuation" in witness:
            c["valuation"] = witness["valuation"]
            c["kind"] = "symbolic"
        check_case(c, col)
    else:
        check_case(witness["case"], col)
