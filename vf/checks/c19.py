"""C19 -- raising an index lambda to a high-level op never misreads it.

Events: result / exception of ``index_lambda_to_high_level_op(il)``.
Oracle: the returned HighLevelOp, interpreted with NumPy on the values of the
identified operands, must equal the lambda's pointwise value (vf.oracle.ilinterp);
API-produced lambdas of the kinds the statement lists must be recognised;
anything else must yield UnknownIndexLambdaExpr or a *correct* classification.
"""
from __future__ import annotations

import itertools
from typing import Any

import numpy as np

from vf import common
from vf.gen import values

LEVEL = "exploration"
RULE = ("index lambdas built through the public API (operators in both operand orders "
        "with array / Python-scalar / NumPy-scalar operands and broadcasting, comparisons, "
        "logical ops, where, math functions, reductions over every axis subset, full, "
        "broadcast_to, astype, zeros_like/ones_like, logical_not, unary ops) enumerated over "
        "dtype and shape-relation grids, plus hand-built near-misses; distinct by case "
        "spec; non-trivial = lambda has >=1 array operand and >=2 result elements")
ASSUMPTIONS = [
    "NumPy functions are the meaning of each HighLevelOp (BinaryOpType -> ufunc, "
    "C99CallOp -> same-named NumPy function, ReduceOp -> np.sum/prod/max/min/all/any)",
    "vf.oracle.ilinterp gives the pointwise value of the lambda",
    "HighLevelOps carry no dtype: the NumPy result is cast to the lambda's declared dtype "
    "before comparison (type casts inside the lambda are dropped by the raiser by design)",
]
MIN_MONITOR = {"mon.value_oracle": 200, "mon.must_recognise": 200, "mon.near_miss": 20}
SHARD_TIMEOUT = {"quick": 600, "thorough": 3000}

BINOPS = ["+", "-", "*", "/", "//", "%", "**", "&", "|", "^"]
CMPS = ["equal", "not_equal", "less", "less_equal", "greater", "greater_equal"]
LOGICAL = ["logical_and", "logical_or"]
UNARY_FUNCS = ["abs", "sqrt", "sin", "cos", "tan", "arcsin", "arccos", "arctan", "sinh",
               "cosh", "tanh", "exp", "log", "log10", "isnan", "real", "imag", "conj"]
REDNS = ["sum", "prod", "amax", "amin", "all", "any"]
DT = values.DTYPES6
SHAPE_PAIRS = [  # (lhs shape, rhs shape)
    ((3,), (3,)), ((2, 3), (2, 3)), ((2, 3), (3,)), ((3,), (2, 3)), ((2, 1), (1, 3)),
    ((2, 3), (1, 3)), ((1,), (2, 2)), ((), (2, 3)), ((2, 3), ()), ((0, 3), (1, 3)),
    ((2, 2), (2, 2)), ((1, 1), (1, 1)), ((2, 1, 3), (4, 1)),
]


# ---------------------------------------------------------------------------


def _binop_valid(op: str, d1: str, d2: str, s1: str, s2: str) -> bool:
    """Documented restrictions only (fragment table excerpt for C19)."""
    k = {np.dtype(d).kind for d in (d1, d2)}
    if op in ("&", "|", "^"):
        return k <= {"b", "i", "u"} and s1 in ("arr", "int", "bool", "np") \
            and s2 in ("arr", "int", "bool", "np")
    if op in ("//", "%"):
        return "c" not in k and "b" not in k
    if op == "-":
        return not (k == {"b"})
    if op == "**":
        return "b" not in k
    if op == "/":
        return True
    return True


def plan(tier: str, seed: int) -> list[dict[str, Any]]:
    rng = common.rng_for(seed, "c19-plan")
    cases: list[dict[str, Any]] = []
    thorough = tier == "thorough"
    # binary operators
    operand_forms = [("arr", "arr"), ("arr", "py"), ("py", "arr"), ("arr", "np"),
                     ("np", "arr")]
    for op in BINOPS + CMPS + LOGICAL:
        for f1, f2 in operand_forms:
            for d1, d2 in itertools.product(DT, DT):
                combos = SHAPE_PAIRS if thorough else rng.sample(SHAPE_PAIRS, 3)
                if not thorough and rng.random() < 0.35:
                    continue
                for s1, s2 in combos:
                    cases.append({"kind": "binop", "op": op, "f1": f1, "f2": f2,
                                  "d1": d1, "d2": d2, "s1": list(s1), "s2": list(s2),
                                  "vseed": rng.getrandbits(32)})
    # where
    for dc, dx, dy in itertools.product(["bool", "int32", "float64"], DT, DT):
        for fc, fx, fy in [("arr", "arr", "arr"), ("arr", "py", "arr"), ("arr", "arr", "py"),
                           ("py", "arr", "arr"), ("arr", "np", "np"), ("arr", "py", "py")]:
            shapes = rng.choice([((2, 3), (2, 3), (2, 3)), ((2, 3), (3,), (2, 1)),
                                 ((3,), (2, 3), ()), ((1,), (1,), (4,)), ((2, 2), (2, 2), (2, 2))])
            cases.append({"kind": "where", "dc": dc, "dx": dx, "dy": dy, "fc": fc, "fx": fx,
                          "fy": fy, "shapes": [list(s) for s in shapes],
                          "vseed": rng.getrandbits(32)})
    # math functions
    for fn in UNARY_FUNCS:
        for d in ["float32", "float64", "complex128"]:
            for shp in [(3,), (2, 3), (), (0,), (1, 4)]:
                cases.append({"kind": "unary_func", "fn": fn, "d": d, "shape": list(shp),
                              "vseed": rng.getrandbits(32)})
    for d in ["float32", "float64"]:
        for form in [("arr", "arr"), ("arr", "py"), ("py", "arr")]:
            for shp in [(3,), (2, 2)]:
                cases.append({"kind": "atan2", "d": d, "form": list(form), "shape": list(shp),
                              "vseed": rng.getrandbits(32)})
    # reductions: every axis subset
    for r in REDNS:
        for shp in [(3,), (2, 3), (2, 3, 2), (1, 3), (2, 2, 2, 2)]:
            nd = len(shp)
            subsets: list[Any] = [None]
            for k in range(0, nd + 1):
                subsets.extend(itertools.combinations(range(nd), k))
            if not thorough and len(subsets) > 8:
                subsets = rng.sample(subsets, 8)
            for ax in subsets:
                for d in DT:
                    cases.append({"kind": "reduce", "r": r, "shape": list(shp),
                                  "axis": None if ax is None else list(ax), "d": d,
                                  "vseed": rng.getrandbits(32)})
    # creation / broadcast / casts / unary
    for d in DT:
        for shp in [(3,), (2, 3), (), (0, 2)]:
            for v in [0, 1, 2.5, -3, True, 1 + 2j, float("nan")]:
                cases.append({"kind": "full", "shape": list(shp), "d": d, "v": repr(v)})
            for tgt in [(2, 3), (4, 2, 3), (3,), (1, 3), (2, 2, 3)]:
                cases.append({"kind": "broadcast_to", "shape": list(shp), "to": list(tgt),
                              "d": d})
            for d2 in DT:
                cases.append({"kind": "astype", "shape": list(shp), "d": d, "to": d2,
                              "vseed": rng.getrandbits(32)})
            for k in ["zeros_like", "ones_like", "logical_not", "neg", "abs_op", "conj_m",
                      "real_p", "imag_p"]:
                cases.append({"kind": k, "shape": list(shp), "d": d,
                              "vseed": rng.getrandbits(32)})
    for k in ["maximum", "minimum"]:
        for d1, d2 in itertools.product(["int32", "int64", "float32", "float64"], repeat=2):
            cases.append({"kind": k, "d1": d1, "d2": d2, "vseed": rng.getrandbits(32)})
    # other API lambdas (no recognition duty): eye, arange, pad, stack lowered, ...
    for i in range(60 if thorough else 20):
        cases.append({"kind": "other_api", "which": i % 6, "vseed": rng.getrandbits(32)})
    # near misses
    for nm in NEAR_MISSES:
        for d in ["int64", "float64"]:
            for i in range(3):
                cases.append({"kind": "near_miss", "nm": nm, "d": d,
                              "vseed": rng.getrandbits(32)})
    rng.shuffle(cases)
    return [{"cases": c} for c in common.split_even(cases, common.NCPU)]


NEAR_MISSES = [
    "permuted_subscript", "offset_subscript", "reversed_subscript", "three_sum",
    "three_product", "index_var_operand", "index_var_only", "reduce_nonzero_lb",
    "reduce_partial_ub", "reduce_of_product", "reduce_permuted", "if_with_comparison",
    "call_of_expr", "scaled_subscript", "diag_subscript", "const_subscript_nonunit",
    "two_level_sum", "sub_as_sum_neg2", "neg_product_sum", "binop_permuted",
    "where_permuted", "call_permuted", "reduce_transposed_out", "sum_of_scalar_binding",
    "broadcast_wrong_axis", "three_and", "power_of_sum", "full_of_binding_expr",
    # the lambda's shape has a leading axis that NO operand supplies (each operand alone
    # broadcasts to the shape, their joint broadcast does not reach it)
    "extra_axis_binop", "extra_axis_scalar_mul", "extra_axis_where", "extra_axis_call",
    "extra_axis_unit_row", "extra_axis_reduce",
    # a reduction variable the summand does not use (multiplies a sum by its trip count)
    "reduce_extra_unused_var", "reduce_diag",
]


def _operand(pt: Any, env: dict[str, Any], name: str, form: str, dtype: str,
             shape: list[int], rng: Any, pool: str) -> Any:
    dt = np.dtype(dtype)
    if form == "arr":
        v = values.make(rng, tuple(shape), dt, pool)
        env[name] = v
        return pt.make_placeholder(name, v.shape, v.dtype)
    if form == "py":
        kind = {"b": "bool", "i": "int", "u": "int", "f": "float", "c": "complex"}[dt.kind]
        return values.py_scalar(rng, kind, pool)
    if form == "np":
        v = values.make(rng, (), dt, pool)
        return v[()]
    raise ValueError(form)


def build(case: dict[str, Any]) -> dict[str, Any]:
    """-> dict(il=IndexLambda|None, env, must=bool, skip=reason|None)"""
    import operator as o

    import pymbolic.primitives as p
    import pytato as pt
    from constantdict import constantdict
    from pytato.array import IndexLambda, make_index_lambda
    from pytato.scalar_expr import Reduce

    rng = common.rng_for(case.get("vseed", 0), "vals")
    env: dict[str, Any] = {}
    out: dict[str, Any] = {"env": env, "il": None, "must": True, "skip": None}
    k = case["kind"]

    def fail_is_skip(fn: Any, doc_excs: tuple[type, ...]) -> Any:
        try:
            return fn()
        except doc_excs as e:
            out["skip"] = f"{type(e).__name__}:{str(e)[:60]}"
            return None

    if k == "binop":
        op = case["op"]
        pool = "nonzero" if op in ("/", "//", "%") else ("positive" if op == "**" else "dyadic")
        if pool == "dyadic" and case["vseed"] % 2 and op in ("+", "-", "*"):
            pool = "generic"
        a = _operand(pt, env, "a", case["f1"], case["d1"], case["s1"], rng, pool)
        b = _operand(pt, env, "b", case["f2"], case["d2"], case["s2"], rng, pool)
        if op in BINOPS:
            if not _binop_valid(op, case["d1"], case["d2"], case["f1"], case["f2"]):
                out["skip"] = "outside-fragment"
                return out
            if op == "**":
                # int ** negative int is rejected by NumPy; keep exponents small & positive
                pass
            fn = {"+": o.add, "-": o.sub, "*": o.mul, "/": o.truediv, "//": o.floordiv,
                  "%": o.mod, "**": o.pow, "&": o.and_, "|": o.or_, "^": o.xor}[op]
            try:
                with np.errstate(all="ignore"):
                    fn(env.get("a", a), env.get("b", b))
            except Exception as e:  # noqa: BLE001 -- NumPy itself rejects: not our case
                out["skip"] = "numpy-rejects:" + type(e).__name__
                return out
            out["il"] = fn(a, b)
        else:
            if op in CMPS and op not in ("equal", "not_equal") and \
                    "c" in {np.dtype(case["d1"]).kind, np.dtype(case["d2"]).kind}:
                out["skip"] = "outside-fragment"
                return out
            out["il"] = getattr(pt, op)(a, b)
    elif k == "where":
        c = _operand(pt, env, "c", case["fc"], case["dc"], case["shapes"][0], rng, "unit")
        x = _operand(pt, env, "x", case["fx"], case["dx"], case["shapes"][1], rng, "dyadic")
        y = _operand(pt, env, "y", case["fy"], case["dy"], case["shapes"][2], rng, "dyadic")
        try:
            np.broadcast_shapes(*[tuple(s) for s, f in zip(case["shapes"],
                                                           (case["fc"], case["fx"], case["fy"]))
                                  if f == "arr"])
        except ValueError:
            out["skip"] = "numpy-rejects:broadcast"
            return out
        out["il"] = pt.where(c, x, y)
    elif k == "unary_func":
        fn = case["fn"]
        pool = {"sqrt": "positive", "log": "positive", "log10": "positive",
                "arcsin": "unit", "arccos": "unit", "isnan": "nan"}.get(fn, "dyadic")
        a = _operand(pt, env, "a", "arr", case["d"], case["shape"], rng, pool)
        if fn == "isnan" and np.dtype(case["d"]).kind == "c":
            out["skip"] = "outside-fragment"
            return out
        out["il"] = getattr(pt, fn)(a)
    elif k == "atan2":
        a = _operand(pt, env, "a", case["form"][0], case["d"], case["shape"], rng, "nonzero")
        b = _operand(pt, env, "b", case["form"][1], case["d"], case["shape"], rng, "nonzero")
        out["il"] = pt.arctan2(a, b)
    elif k == "reduce":
        d = np.dtype(case["d"])
        r = case["r"]
        if r in ("amax", "amin") and d.kind in "cb":
            out["skip"] = "outside-fragment"
            return out
        pool = "pow2" if r == "prod" else "dyadic"
        if r == "prod" and d.kind in "iu":
            pool = "unit"
        a = _operand(pt, env, "a", "arr", case["d"], case["shape"], rng, pool)
        ax = case["axis"]
        out["il"] = getattr(pt, r)(a, axis=None if ax is None else tuple(ax))
    elif k == "full":
        v = eval(case["v"], {"nan": float("nan")})  # noqa: S307 -- literal from plan()
        d = np.dtype(case["d"])
        if isinstance(v, complex) and d.kind != "c":
            out["skip"] = "numpy-rejects:complex->real"
            return out
        if (v != v) and d.kind not in "fc":
            out["skip"] = "numpy-rejects:nan->int"
            return out
        if isinstance(v, float) and d.kind in "iub" and v != int(v):
            pass
        out["il"] = pt.full(tuple(case["shape"]), v, dtype=d)
        out["fullval"] = v
    elif k == "broadcast_to":
        try:
            np.broadcast_to(np.zeros(case["shape"]), case["to"])
        except ValueError:
            out["skip"] = "numpy-rejects:broadcast"
            return out
        a = _operand(pt, env, "a", "arr", case["d"], case["shape"], rng, "dyadic")
        out["il"] = pt.broadcast_to(a, tuple(case["to"]))
    elif k == "astype":
        d, to = np.dtype(case["d"]), np.dtype(case["to"])
        if (d.kind in "fc" and to.kind in "iu") or (d.kind == "c" and to.kind in "iuf") \
                or to.kind == "b":
            out["skip"] = "outside-fragment"
            return out
        a = _operand(pt, env, "a", "arr", case["d"], case["shape"], rng, "dyadic")
        out["il"] = a.astype(to)
        # there is no cast HighLevelOp: "unknown" is a correct answer for a cast
        out["must"] = False
    elif k in ("zeros_like", "ones_like"):
        a = _operand(pt, env, "a", "arr", case["d"], case["shape"], rng, "dyadic")
        if np.dtype(case["d"]).kind not in "fc":
            out["skip"] = "outside-fragment"  # documented: float/complex operands only
            return out
        out["il"] = getattr(pt, k)(a)
    elif k == "logical_not":
        a = _operand(pt, env, "a", "arr", case["d"], case["shape"], rng, "unit")
        out["il"] = pt.logical_not(a)
    elif k == "neg":
        if np.dtype(case["d"]).kind == "b":
            out["skip"] = "numpy-rejects:neg-bool"
            return out
        a = _operand(pt, env, "a", "arr", case["d"], case["shape"], rng, "dyadic")
        out["il"] = -a
    elif k in ("abs_op", "conj_m", "real_p", "imag_p"):
        a = _operand(pt, env, "a", "arr", case["d"], case["shape"], rng, "dyadic")
        if np.dtype(case["d"]).kind not in "fc":
            if k == "abs_op":
                out["skip"] = "outside-fragment"
                return out
        r = {"abs_op": lambda: abs(a), "conj_m": lambda: a.conj(),
             "real_p": lambda: a.real, "imag_p": lambda: a.imag}[k]()
        if r is a:
            out["skip"] = "returned-operand"
            return out
        out["il"] = r
    elif k in ("maximum", "minimum"):
        a = _operand(pt, env, "a", "arr", case["d1"], [2, 3], rng, "dyadic")
        b = _operand(pt, env, "b", "arr", case["d2"], [3], rng, "dyadic")
        out["il"] = getattr(pt, k)(a, b)
    elif k == "other_api":
        w = case["which"]
        out["must"] = False
        if w == 0:
            out["il"] = pt.eye(3, 4, k=rng.randrange(-2, 3), dtype=np.dtype("float64"))
        elif w == 1:
            out["il"] = pt.arange(rng.randrange(0, 3), rng.randrange(3, 9), rng.randrange(1, 3),
                                  dtype=np.dtype("int64"))
        elif w == 2:
            a = _operand(pt, env, "a", "arr", "float64", [2, 3], rng, "dyadic")
            out["il"] = pt.pad(a, [(1, 2), (0, 1)], constant_values=1.5)
        elif w == 3:
            from pytato.transform.lower_to_index_lambda import to_index_lambda
            a = _operand(pt, env, "a", "arr", "int64", [2, 3], rng, "ids")
            b = _operand(pt, env, "b", "arr", "int64", [2, 3], rng, "dyadic")
            out["il"] = to_index_lambda(pt.stack([a, b], axis=rng.randrange(3)))
        elif w == 4:
            from pytato.transform.lower_to_index_lambda import to_index_lambda
            a = _operand(pt, env, "a", "arr", "int64", [3, 3], rng, "ids")
            out["il"] = to_index_lambda(rng.choice([a.T, pt.roll(a, 1, 0), a[::-1], a[1:, :2],
                                                    a.reshape(9), a[:, 0], a[2]]))
        else:
            from pytato.transform.lower_to_index_lambda import to_index_lambda
            a = _operand(pt, env, "a", "arr", "int64", [3, 3], rng, "ids")
            b = _operand(pt, env, "b", "arr", "int64", [3, 3], rng, "dyadic")
            out["il"] = to_index_lambda(rng.choice([
                pt.einsum("ij,jk->ik", a, b), pt.einsum("ii->i", a), pt.einsum("ij->ji", a),
                pt.einsum("ij,ij->ij", a, b), pt.einsum("ij->", a), pt.einsum("ij->i", a),
                pt.concatenate([a, b], axis=1)]))
    elif k == "near_miss":
        out["must"] = False
        d = case["d"]
        a = _operand(pt, env, "a", "arr", d, [3, 3], rng, "ids")
        b = _operand(pt, env, "b", "arr", d, [3, 3], rng, "dyadic")
        v = _operand(pt, env, "v", "arr", d, [3], rng, "ids")
        s = _operand(pt, env, "s", "arr", d, [], rng, "positive")
        c = _operand(pt, env, "c", "arr", "bool", [3, 3], rng, "unit")
        i0, i1, r0 = p.Variable("_0"), p.Variable("_1"), p.Variable("_r0")
        A, B, V, S, C = (p.Variable(x) for x in "abvsc")
        from pytato.reductions import SumReductionOperation as SumOp
        nm = case["nm"]
        shape2: tuple[int, ...] = (3, 3)
        sq = np.dtype(d)

        def mk(expr: Any, bnd: dict[str, Any], shape: tuple[int, ...], dtype: Any = sq) -> Any:
            from pytato.array import ReductionDescriptor, _get_default_axes
            from pytato.scalar_expr import get_reduction_induction_variables
            return IndexLambda(
                expr=expr, bindings=constantdict(bnd), shape=shape, dtype=np.dtype(dtype),
                tags=frozenset(), axes=_get_default_axes(len(shape)),
                var_to_reduction_descr=constantdict(
                    {v_: ReductionDescriptor()
                     for v_ in get_reduction_induction_variables(expr)}))
        if nm == "permuted_subscript":
            il = mk(A[i1, i0], {"a": a}, shape2)
        elif nm == "offset_subscript":
            il = mk(V[(i0 + 1) % 3], {"v": v}, (3,))
        elif nm == "reversed_subscript":
            il = mk(V[2 - i0], {"v": v}, (3,))
        elif nm == "three_sum":
            il = mk(p.Sum((A[i0, i1], B[i0, i1], A[i0, i1])), {"a": a, "b": b}, shape2)
        elif nm == "three_product":
            il = mk(p.Product((A[i0, i1], B[i0, i1], 2)), {"a": a, "b": b}, shape2)
        elif nm == "index_var_operand":
            il = mk(p.Sum((i0, V[i0])), {"v": v}, (3,), np.dtype("int64") if sq.kind == "i"
                    else sq)
        elif nm == "index_var_only":
            il = mk(i0, {}, (3,), np.dtype("int64"))
        elif nm == "reduce_nonzero_lb":
            il = mk(Reduce(V[r0], SumOp(), constantdict({"_r0": (1, 3)})), {"v": v}, ())
        elif nm == "reduce_partial_ub":
            il = mk(Reduce(V[r0], SumOp(), constantdict({"_r0": (0, 2)})), {"v": v}, ())
        elif nm == "reduce_of_product":
            il = mk(Reduce(V[r0] * V[r0], SumOp(), constantdict({"_r0": (0, 3)})),
                    {"v": v}, ())
        elif nm == "reduce_permuted":
            # out[_0] = sum_r a[_r0, _0]  (reduction over axis 0): a *normal* reduce
            il = mk(Reduce(A[r0, i0], SumOp(), constantdict({"_r0": (0, 3)})), {"a": a}, (3,))
        elif nm == "reduce_transposed_out":
            # a3[_1, _0, _r0]: output axes permuted -> not np.sum(a3, axis=2)
            a3 = _operand(pt, env, "a3", "arr", d, [3, 3, 2], rng, "ids")
            il = mk(Reduce(p.Variable("a3")[i1, i0, r0], SumOp(),
                           constantdict({"_r0": (0, 2)})), {"a3": a3}, (3, 3))
        elif nm == "if_with_comparison":
            il = mk(p.If(p.Comparison(A[i0, i1], ">", 4), A[i0, i1], B[i0, i1]),
                    {"a": a, "b": b}, shape2)
        elif nm == "call_of_expr":
            if sq.kind != "f":
                out["skip"] = "outside-fragment"
                return out
            il = mk(p.Call(p.Variable("pytato.c99.sin"), (A[i0, i1] + 1,)), {"a": a}, shape2)
        elif nm == "scaled_subscript":
            il = mk(V[2 * i0 % 3], {"v": v}, (3,))
        elif nm == "diag_subscript":
            il = mk(A[i0, i0], {"a": a}, (3,))
        elif nm == "const_subscript_nonunit":
            il = mk(A[0, i1], {"a": a}, shape2)
        elif nm == "two_level_sum":
            il = mk(p.Sum((A[i0, i1], p.Sum((B[i0, i1], 1)))), {"a": a, "b": b}, shape2)
        elif nm == "sub_as_sum_neg2":
            il = mk(p.Sum((A[i0, i1], p.Product((-2, B[i0, i1])))), {"a": a, "b": b}, shape2)
        elif nm == "neg_product_sum":
            il = mk(p.Sum((A[i0, i1], p.Product((-1, B[i1, i0])))), {"a": a, "b": b}, shape2)
        elif nm == "binop_permuted":
            il = mk(p.Sum((A[i0, i1], B[i1, i0])), {"a": a, "b": b}, shape2)
        elif nm == "where_permuted":
            il = mk(p.If(C[i1, i0], A[i0, i1], B[i0, i1]), {"a": a, "b": b, "c": c}, shape2)
        elif nm == "call_permuted":
            if sq.kind != "f":
                out["skip"] = "outside-fragment"
                return out
            il = mk(p.Call(p.Variable("pytato.c99.exp"), (B[i1, i0],)), {"b": b}, shape2)
        elif nm == "sum_of_scalar_binding":
            il = mk(p.Sum((A[i0, i1], S)), {"a": a, "s": s}, shape2)
        elif nm == "broadcast_wrong_axis":
            # v broadcast along the *last* axis instead of the first: v[_0]
            il = mk(V[i0], {"v": v}, shape2)
        elif nm == "three_and":
            il = mk(p.LogicalAnd((C[i0, i1], C[i1, i0], C[i0, i1])), {"c": c}, shape2,
                    np.dtype(bool))
        elif nm == "power_of_sum":
            il = mk(p.Power(A[i0, i1] + B[i0, i1], 2), {"a": a, "b": b}, shape2)
        elif nm == "full_of_binding_expr":
            il = mk(S * 2, {"s": s}, shape2)
        elif nm == "extra_axis_binop":
            w = _operand(pt, env, "w", "arr", d, [3], rng, "dyadic")
            il = mk(p.Sum((V[i1], p.Variable("w")[i1])), {"v": v, "w": w}, (2, 3))
        elif nm == "extra_axis_scalar_mul":
            il = mk(p.Product((V[i1], 2)), {"v": v}, (2, 3))
        elif nm == "extra_axis_where":
            i2 = p.Variable("_2")
            il = mk(p.If(C[i1, i2], A[i1, i2], B[i1, i2]), {"a": a, "b": b, "c": c}, (2, 3, 3))
        elif nm == "extra_axis_call":
            if sq.kind != "f":
                out["skip"] = "outside-fragment"
                return out
            il = mk(p.Call(p.Variable("pytato.c99.sin"), (V[i1],)), {"v": v}, (2, 3))
        elif nm == "extra_axis_unit_row":
            u = _operand(pt, env, "u", "arr", d, [1, 3], rng, "ids")
            il = mk(p.Product((p.Variable("u")[0, i1], 2)), {"u": u}, (3, 3))
        elif nm == "reduce_extra_unused_var":
            il = mk(Reduce(V[r0], SumOp(), constantdict({"_r0": (0, 3), "_r1": (0, 2)})),
                    {"v": v}, ())
        elif nm == "reduce_diag":
            # trace: one reduction variable in two subscript positions
            il = mk(Reduce(A[r0, r0], SumOp(), constantdict({"_r0": (0, 3)})), {"a": a}, ())
        elif nm == "extra_axis_reduce":
            # out[_0, _1] = sum_r a[_1, _r0]: np.sum(a, axis=1) has one axis less
            il = mk(Reduce(A[i1, r0], SumOp(), constantdict({"_r0": (0, 3)})), {"a": a}, (2, 3))
        else:
            raise ValueError(nm)
        out["il"] = il
    else:
        raise ValueError(k)
    return out


# ---------------------------------------------------------------------------
# NumPy meaning of a HighLevelOp

_BIN = {
    "ADD": np.add, "SUB": np.subtract, "MULT": np.multiply, "LOGICAL_OR": np.logical_or,
    "LOGICAL_AND": np.logical_and, "BITWISE_OR": np.bitwise_or, "BITWISE_AND": np.bitwise_and,
    "BITWISE_XOR": np.bitwise_xor, "TRUEDIV": np.true_divide, "FLOORDIV": np.floor_divide,
    "POWER": np.power, "MOD": np.remainder, "LESS": np.less, "LESS_EQUAL": np.less_equal,
    "GREATER": np.greater, "GREATER_EQUAL": np.greater_equal, "EQUAL": np.equal,
    "NOT_EQUAL": np.not_equal,
}
_FN = {"abs": np.abs, "sin": np.sin, "cos": np.cos, "tan": np.tan, "asin": np.arcsin,
       "acos": np.arccos, "atan": np.arctan, "sinh": np.sinh, "cosh": np.cosh,
       "tanh": np.tanh, "exp": np.exp, "log": np.log, "log10": np.log10, "isnan": np.isnan,
       "sqrt": np.sqrt, "conj": np.conj, "real": np.real, "imag": np.imag,
       "atan2": np.arctan2}
_RED = {"SumReductionOperation": np.sum, "ProductReductionOperation": np.prod,
        "MaxReductionOperation": np.max, "MinReductionOperation": np.min,
        "AllReductionOperation": np.all, "AnyReductionOperation": np.any}


class OperandNotBound(Exception):
    pass


class SwallowedCast(Exception):
    pass


def interpret_hlo(hlo: Any, il: Any, val_of: Any) -> np.ndarray:
    import pytato as pt
    from pytato import raising as r

    def v(x: Any) -> Any:
        if isinstance(x, pt.Array):
            if not any(x is b for b in il.bindings.values()):
                raise OperandNotBound(repr(x)[:80])
            return val_of(x)
        return x
    shape = tuple(int(s) for s in il.shape)
    with np.errstate(all="ignore"):
        if isinstance(hlo, r.FullOp):
            res = np.full(shape, hlo.fill_value)
        elif isinstance(hlo, r.BinaryOp):
            res = _BIN[hlo.binary_op.name](v(hlo.x1), v(hlo.x2))
        elif isinstance(hlo, r.C99CallOp):
            res = _FN[hlo.function](*[v(a) for a in hlo.args])
        elif isinstance(hlo, r.WhereOp):
            res = np.where(v(hlo.condition), v(hlo.then), v(hlo.else_))
        elif isinstance(hlo, r.BroadcastOp):
            res = np.broadcast_to(v(hlo.x), shape)
            if np.asarray(res).dtype != il.dtype:
                # pure data movement cannot change the dtype: the lambda does more than
                # broadcast (a cast was read as a broadcast)
                raise SwallowedCast(f"BroadcastOp of a {np.asarray(res).dtype} operand for a "
                                    f"lambda of dtype {il.dtype}")
        elif isinstance(hlo, r.LogicalNotOp):
            res = np.logical_not(v(hlo.x))
        elif isinstance(hlo, r.ReduceOp):
            x = v(hlo.x)
            fn = _RED[type(hlo.op).__name__]
            axes = tuple(sorted(hlo.axes.keys()))
            if fn in (np.sum, np.prod):
                res = fn(x, axis=axes, dtype=x.dtype)
            else:
                res = fn(x, axis=axes)
        elif isinstance(hlo, r.ZerosLikeOp):
            res = np.zeros_like(v(hlo.x))
        else:
            raise TypeError(f"unknown HighLevelOp {type(hlo).__name__}")
        # (no forgiving broadcast: the operation applied with NumPy must have the lambda's
        # shape -- the numpy-like target emits exactly this expression)
        return np.asarray(res).astype(il.dtype)


def check_case(case: dict[str, Any], col: common.Collector) -> None:
    import pytato as pt
    from pytato.diagnostic import UnknownIndexLambdaExpr
    from pytato.raising import index_lambda_to_high_level_op
    from vf.oracle import ilinterp, refeval

    fam = case["kind"] + (":" + case["nm"] if case["kind"] == "near_miss" else "") + \
        (":" + case["op"] if case["kind"] == "binop" else "")
    fam_short = case["kind"] if case["kind"] != "near_miss" else "near_miss:" + case["nm"]
    cell = fam_short
    if case["kind"] == "binop":
        cell = (f"binop:{case['op']}:{case['f1']}-{case['d1']}"
                f"/{case['f2']}-{case['d2']}")
    elif case["kind"] == "where":
        cell = (f"where:{case['fc']}-{case['dc']}/{case['fx']}-{case['dx']}"
                f"/{case['fy']}-{case['dy']}")
    elif case["kind"] in ("unary_func",):
        cell = f"unary_func:{case['fn']}:{case['d']}"
    elif case["kind"] == "reduce":
        cell = f"reduce:{case['r']}:{case['d']}"
    elif case["kind"] == "full":
        cell = f"full:{case['d']}:{case['v']}"
    elif case["kind"] == "astype":
        cell = f"astype:{case['d']}->{case['to']}"
    elif "d" in case:
        cell = f"{fam_short}:{case['d']}"
    try:
        b = build(case)
    except Exception as e:  # noqa: BLE001
        # The public API refused / failed to build a lambda.  Whether that is
        # legitimate is C01/C03's question (construction); C19 is about lambdas
        # that exist.  Counted so the evidence shows it.
        col.histo("construction_failed", f"{fam_short}:{type(e).__name__}")
        col.case()
        return
    if b["skip"]:
        col.histo("skipped", b["skip"].split(":")[0])
        col.case()
        return
    il = b["il"]
    if not isinstance(il, pt.IndexLambda):
        col.histo("skipped", "not-an-index-lambda")
        col.case()
        return
    col.histo("family", fam_short)
    # reference pointwise value
    rev = refeval.RefEval(b["env"])
    try:
        bind = {k: np.asarray(rev(v)) for k, v in il.bindings.items()}
        ref, _ev = ilinterp.eval_index_lambda(il, bind)
    except ilinterp.UnsupportedExpr as e:
        col.inconc(f"ilinterp cannot evaluate {fam_short}: {e}")
        col.case()
        return
    if b["must"]:
        col.count("mon.must_recognise")
    else:
        col.count("mon.near_miss")
    try:
        hlo = index_lambda_to_high_level_op(il)
    except UnknownIndexLambdaExpr:
        col.histo("outcome", "unknown")
        if b["must"]:
            col.violation(f"C19:api-lambda-unrecognised:{cell}",
                          "index lambda produced by the public API for a listed operation "
                          "is reported as unknown",
                          {"case": case, "expr": str(il.expr)})
        col.case(common.stable_hash(case), len(il.bindings) >= 1 and ref.size >= 2,
                 {"case": case, "expr": str(il.expr), "outcome": "unknown"})
        return
    except Exception as e:  # noqa: BLE001
        col.histo("outcome", "raises:" + type(e).__name__)
        col.violation(f"C19:raiser-crashes:{'api' if b['must'] else fam_short}:"
                      f"{type(e).__name__}@{common.exc_site(e)}",
                      f"index_lambda_to_high_level_op raised {type(e).__name__} "
                      f"({str(e)[:120]}) instead of a HighLevelOp or UnknownIndexLambdaExpr",
                      {"case": case, "expr": str(il.expr)})
        col.case()
        return
    col.histo("outcome", type(hlo).__name__)
    try:
        got = interpret_hlo(hlo, il, rev)
    except SwallowedCast as e:
        col.violation(f"C19:misread:{cell}:BroadcastOp-swallows-cast", str(e),
                      {"case": case, "expr": str(il.expr), "hlo": repr(hlo)[:300]})
        col.case()
        return
    except OperandNotBound as e:
        col.violation(f"C19:operand-not-a-binding:{cell}",
                      f"HighLevelOp names an operand that is not one of the bindings: {e}",
                      {"case": case, "expr": str(il.expr)})
        col.case()
        return
    except Exception as e:  # noqa: BLE001
        col.violation(f"C19:hlo-not-applicable:{cell}:{type(hlo).__name__}",
                      f"applying the returned {type(hlo).__name__} with NumPy fails: "
                      f"{type(e).__name__}: {str(e)[:120]}",
                      {"case": case, "expr": str(il.expr), "hlo": repr(hlo)[:300]})
        col.case()
        return
    col.count("mon.value_oracle")
    # exact for bool/int; a few ulps for inexact results (NumPy's scalar and ufunc paths
    # for the same operation may differ in the last bit); precision-loss misreads are
    # ~1e-7 relative and stay visible.
    from vf.oracle.compare import close_ulps
    ok = got.shape == ref.shape and close_ulps(got, ref, 8.0)
    if not ok:
        key = f"C19:misread:{cell}:{type(hlo).__name__}" + \
            (":shape" if got.shape != ref.shape else "")
        if (case["kind"] == "binop" and case["f1"] == "np" and case["op"] in BINOPS
                and got.shape == ref.shape and ref.dtype.kind in "fc"
                and np.allclose(got, ref, rtol=3e-6, atol=1e-6, equal_nan=True)):
            # NumPy-scalar left operand was demoted to a Python scalar inside the
            # expression (NumPy's scalar __op__ defers to the pymbolic node with
            # .item()), so dropping the array's TypeCast computes in lower precision.
            key = "C19:misread:binop:left-numpy-scalar-demoted-cast-dropped:precision-only"
        col.violation(key,
                      f"{type(hlo).__name__} applied with NumPy differs from the lambda's "
                      "pointwise value",
                      {"case": case, "expr": str(il.expr), "hlo": repr(hlo)[:300],
                       "got": got, "want": ref})
    col.case(common.stable_hash(case), len(il.bindings) >= 1 and ref.size >= 2,
             {"case": case, "expr": str(il.expr)[:120], "hlo": type(hlo).__name__})


def run_shard(shard: dict[str, Any], col: common.Collector) -> None:
    for case in shard["cases"]:
        try:
            check_case(case, col)
        except Exception as e:  # noqa: BLE001
            import traceback
            col.violation(f"C19:harness-exception:{case['kind']}:{type(e).__name__}",
                          f"unexpected {type(e).__name__}: {str(e)[:200]}",
                          {"case": case, "tb": traceback.format_exc()[-1500:]})


def replay(witness: dict[str, Any], col: common.Collector) -> None:
    check_case(witness["case"], col)
