"""C14 -- NumPy-like Python code generation computes what NumPy computes.

Events: source text / expected_arguments / bound_arguments of the program from
``generate_numpy_like(expr, <NumPy target>)``; the value returned by calling it with
keyword inputs; exception classes at generation time and at run time.
Oracle: generation may raise a *not-supported* error (NotImplementedError,
UnknownIndexLambdaExpr); otherwise the call must succeed and every output must equal
the NumPy shadow; keyword parameters = user input names + bound names exactly;
bound values are the wrapped data objects, unmodified.
"""
from __future__ import annotations

import signal
from typing import Any

import numpy as np

from vf import common
from vf.gen import proggen
from vf.gen import progspec as ps

LEVEL = "exploration"
RULE = ("random ProgSpecs (C01's generator, static shapes, no CSR / loopy calls, float // and % "
        "allowed) from 7 profiles incl. slice-heavy; distinct by spec hash; non-trivial as C01; "
        "programs the target refuses with a not-supported error are counted separately and do "
        "not count as non-trivial")
ASSUMPTIONS = [
    "real NumPy stands in for the NumPy-compatible array module (the interface jax.numpy mirrors)",
    "NotImplementedError and UnknownIndexLambdaExpr are the target's not-supported errors",
    "value tolerance as in C01 (Monte-Carlo-arithmetic spread); exact for int/bool",
]
MIN_MONITOR = {"mon.value_oracle": 50, "mon.programs_executed": 30, "mon.argument_oracle": 30}
SHARD_TIMEOUT = {"quick": 900, "thorough": 7200}
N_PROGRAMS = {"quick": 20000, "thorough": 400000}
OPTS = {"no_loopy": True, "no_csr": True, "float_divmod": True}


_Timeout = common.Timeout


_target: Any = None


def numpy_target() -> Any:
    global _target
    if _target is None:
        from pytato.target.python import BoundPythonProgram, NumpyLikePythonTarget

        class NumpyTarget(NumpyLikePythonTarget):  # type: ignore[misc]
            @property
            def numpy_like_module_name(self) -> str:
                return "numpy"

            @property
            def numpy_like_module_name_shorthand(self) -> str:
                return "_pt_np"

            def bind_program(self, program: str, entrypoint: str,
                             expected_arguments: Any, bound_arguments: Any) -> Any:
                return BoundPythonProgram(target=self, program=program, entrypoint=entrypoint,
                                          expected_arguments=expected_arguments,
                                          bound_arguments=bound_arguments)
        _target = NumpyTarget()
    return _target


def plan(tier: str, seed: int) -> list[dict[str, Any]]:
    n = N_PROGRAMS[tier]
    profiles = sorted(proggen.PROFILES)
    cases = [{"seed": common.sub_seed(seed, "c14", i) & 0x7FFFFFFF,
              "profile": profiles[i % len(profiles)]} for i in range(n)]
    return [{"cases": c} for c in common.split_even(cases, common.NCPU * (1 if tier == "quick"
                                                                          else 4))]


def run_program(spec: dict[str, Any], col: common.Collector) -> None:
    import pytato as pt
    from pytato.diagnostic import UnknownIndexLambdaExpr
    from pytato.target.python.numpy_like import generate_numpy_like
    from vf.oracle import compare

    wit = {"spec": spec}
    try:
        b = ps.PtBuild(spec)
        outs = b.outputs()
        dag = pt.transform.deduplicate(pt.make_dict_of_named_arrays(outs))
    except Exception as e:  # noqa: BLE001 -- construction is C01/C03's question
        col.histo("construction_failed", type(e).__name__)
        return
    col.count("mon.programs_built")
    try:
        prg = generate_numpy_like(dag, target=numpy_target(), function_name="_pt_kernel",
                                  show_code=False, entrypoint_decorators=(),
                                  extra_preambles=())
    except (NotImplementedError, UnknownIndexLambdaExpr) as e:
        col.count("not_supported")
        col.histo("not_supported", f"{type(e).__name__}:{common.norm_msg(str(e), 40)}")
        return
    except Exception as e:  # noqa: BLE001
        col.violation(f"C14:generation:{type(e).__name__}@{common.exc_site(e)}",
                      f"generate_numpy_like raised {type(e).__name__} (not a not-supported "
                      f"error): {str(e)[:160]}", wit)
        return
    col.count("mon.programs_generated")
    # -- argument oracle
    col.count("mon.argument_oracle")
    user_names = {b.input_names[i["id"]] for i in spec["inputs"] if i["kind"] == "ph"}
    # placeholders that do not reach any output are legitimately absent
    from pytato.transform import InputGatherer
    reach = {x.name for x in InputGatherer()(dag) if isinstance(x, pt.Placeholder)}
    bound = dict(prg.bound_arguments)
    # Parameters of the generated function: nothing but user input names and bound names
    # (an input the generated code does not need -- zeros_like(x) -- may be absent: the
    # bound program filters keyword arguments, so passing every user input still works).
    exp = set(prg.expected_arguments)
    if not exp <= (reach | set(bound)):
        col.violation("C14:arguments", f"expected_arguments {sorted(exp)} contains names that "
                      f"are neither user inputs {sorted(reach)} nor bound {sorted(bound)}", wit)
    if not set(bound) <= exp:
        col.violation("C14:arguments", "a bound argument is not a parameter of the function",
                      wit)
    if (set(bound) & user_names):
        col.violation("C14:arguments", "a bound name coincides with a user input name", wit)
    reach_dw = [x for x in InputGatherer()(dag) if isinstance(x, pt.DataWrapper)]
    dw_ids = {id(x.data) for x in reach_dw}
    for k, v in bound.items():
        if id(v) not in dw_ids:
            col.violation("C14:bound-data-identity", f"bound argument {k} is not (identically) "
                          "the data object of a reachable data wrapper", wit)
    before = {k: (np.asarray(v).tobytes(), np.asarray(v).dtype, np.asarray(v).shape)
              for k, v in bound.items()}
    has_dw = any(i["kind"] == "dw" for i in spec["inputs"])
    for vs in ([0] if has_dw else [0, 1]):
        use_vs = vs
        ref = spread = None
        for _attempt in range(4):
            try:
                r_, s_, fragile, _plain = ps.reference(spec, use_vs, pure_numpy=True)
            except Exception as e:  # noqa: BLE001
                # with NumPy's own reduction dtypes the program is not a valid NumPy
                # program (e.g. np.all(x) - bool_array): outside the statement
                col.histo("numpy_rejects_pure", type(e).__name__)
                return
            if not fragile:
                ref, spread = r_, s_
                break
            col.count("fragile_input_sets")
            if has_dw:
                break
            use_vs += 2
        if ref is None:
            col.count("skipped_fragile")
            continue
        env = {k: v for k, v in b.env(use_vs).items() if k in prg.expected_arguments}
        try:
            with np.errstate(all="ignore"):
                res = prg(**env)
        except Exception as e:  # noqa: BLE001
            col.violation(f"C14:runtime:{type(e).__name__}",
                          f"generated program raised {type(e).__name__}: {str(e)[:160]}",
                          {**wit, "vset": use_vs, "source": prg.program[-1200:]})
            continue
        col.count("mon.programs_executed")
        if not isinstance(res, dict) or set(res) != set(spec["outputs"]):
            col.violation("C14:output-names", f"program returned {type(res).__name__} with keys "
                          f"{sorted(res) if isinstance(res, dict) else None}",
                          {**wit, "vset": use_vs})
            continue
        for name, got in res.items():
            want = ref[name]
            got = np.asarray(got)
            col.count("mon.value_oracle")
            if got.shape != want.shape:
                col.violation("C14:shape", f"output {name}: {got.shape} vs NumPy {want.shape}",
                              {**wit, "vset": use_vs, "output": name,
                               "source": prg.program[-1200:]})
                continue
            with np.errstate(all="ignore"):
                g2 = got.astype(want.dtype) if got.dtype != want.dtype else got
            if not compare.close_ulps(g2, want, 16.0, err=8.0 * spread[name]):
                prec = want.dtype.kind in "fc" and compare.close_ulps(
                    g2, want, 2.0 ** 30 if want.dtype.itemsize >= 8 else 2.0 ** 10)
                col.violation("C14:value:precision-only" if prec else "C14:value",
                              f"output {name} differs from NumPy beyond tolerance",
                              {**wit, "vset": use_vs, "output": name,
                               "diff": compare.describe_diff(g2, want),
                               "source": prg.program[-1200:]})
            elif got.dtype != want.dtype:
                # Values agree; only the dtype of the generated program's result differs
                # from the user's NumPy program.  The statement is about values; the
                # deviations observed all stem from pytato's dtype inference (C03) or
                # from the NumPy-scalar demotion recorded under C19.  Counted, not judged.
                col.histo("result_dtype_differs", f"{want.dtype}->{got.dtype}")
    for k, v in bound.items():
        a = np.asarray(v)
        if (a.tobytes(), a.dtype, a.shape) != before[k]:
            col.violation("C14:bound-data-modified", f"bound argument {k} was modified", wit)


def finalize(spec: dict[str, Any], tmp: common.Collector, col: common.Collector) -> None:
    from vf.gen import shrink
    done: set[str] = set()
    for v in tmp.violations:
        coarse = v["key"]
        if coarse in done:
            continue
        done.add(coarse)
        w = v["witness"]
        vset = w.get("vset", 0)

        def fails(s: dict[str, Any]) -> bool:
            c2 = common.Collector()
            try:
                run_program(s, c2)
            except Exception:  # noqa: BLE001
                return False
            return any(x["key"] == coarse for x in c2.violations)
        try:
            small = shrink.shrink(spec, fails, vset=vset)
        except Exception:  # noqa: BLE001
            small = spec
        w2 = dict(w)
        w2["spec"] = small
        key = f"{coarse}:{ps.signature(small)}"
        col.violation(key, v["what"], w2)
        n = tmp.viol_counts.get(coarse, 1)
        if n > 1:
            col.viol_counts[key] = col.viol_counts.get(key, 0) + n - 1


def check_case(case: dict[str, Any], col: common.Collector) -> None:
    spec = case.get("spec")
    if spec is None:
        spec = proggen.generate(case["seed"], case["profile"], opts=OPTS)
    for k in ps.node_kinds(spec):
        col.histo("op", k)
    tmp = common.Collector()
    supported = False
    try:
        with common.time_limit(60):
            run_program(spec, tmp)
        supported = tmp.counters.get("mon.programs_generated", 0) > 0
        for k, v in tmp.counters.items():
            col.count(k, v)
        for t, d in tmp.hist.items():
            for k, v in d.items():
                col.histo(t, k, v)
        if tmp.violations:
            with common.time_limit(240):
                finalize(spec, tmp, col)
    except common.Timeout:
        col.count("program_timeouts")
    col.case(common.stable_hash(spec), supported and ps.is_nontrivial(spec),
             {"profile": spec.get("profile"), "ops": ps.node_kinds(spec),
              "outputs": spec["outputs"]})


def run_shard(shard: dict[str, Any], col: common.Collector) -> None:
    for case in shard["cases"]:
        try:
            check_case(case, col)
        except Exception as e:  # noqa: BLE001
            import traceback
            col.violation(f"C14:harness-exception:{type(e).__name__}@"
                          f"{common.exc_site(e, ('vf',))}",
                          f"unexpected {type(e).__name__}: {str(e)[:200]}",
                          {"case": case, "tb": traceback.format_exc()[-2000:]})


def replay(witness: dict[str, Any], col: common.Collector) -> None:
    if "spec" in witness:
        check_case({"spec": witness["spec"]}, col)
    else:
        check_case(witness["case"], col)
