"""C03 -- shape and dtype are inferred eagerly and agree with NumPy.

Events: ``.shape/.dtype/.ndim`` read immediately after construction (no evaluation);
the exception class of the constructor.
Oracle: NumPy on concrete operands of the same shapes / dtypes / scalar kinds.
  (NumPy ok, pytato ok)      -> shape and dtype must be equal
  (NumPy raises a shape/axis/index error, pytato accepts) -> violation, also when the
                                error only surfaces later on .shape access
  (NumPy ok, pytato raises)  -> allowed by the statement (counted "stricter")
  NumPy TypeError            -> outside the statement, skipped
"""
from __future__ import annotations

import itertools
from typing import Any

import numpy as np

from vf import common

LEVEL = "exploration"
RULE = ("product enumeration: operators / comparison / logical / where / maximum / minimum / "
        "math functions x operand kinds {array, Python bool/int/float/complex, NumPy scalar} in "
        "both positions x dtype pairs from 13 dtypes x broadcast relations; reductions x dtypes x "
        "every axis in [-ndim-1, ndim+1]; stack/concatenate/roll/expand_dims/squeeze/transpose/"
        "reshape with every axis / impossible sizes; int indices and slices on axis length 0..6; "
        "einsum spec errors; creation routines; every intermediate node of random C01 programs; "
        "distinct by case; non-trivial = operands differ in dtype or shape, or NumPy rejects")
ASSUMPTIONS = [
    "the installed NumPy (2.x, NEP 50 promotion) is the reference",
    "NumPy shape/axis/index errors = ValueError (broadcast/shape), AxisError, IndexError; "
    "NumPy TypeErrors (dtype objections) are outside the statement",
]
MIN_MONITOR = {"mon.compared": 2000, "mon.numpy_rejects": 100}
SHARD_TIMEOUT = {"quick": 900, "thorough": 7200}

DT = ["bool", "int8", "int16", "int32", "int64", "uint8", "uint16", "uint32", "uint64",
      "float32", "float64", "complex64", "complex128"]
DT_Q = ["bool", "int8", "int32", "int64", "uint8", "uint64", "float32", "float64", "complex64",
        "complex128"]
BINOPS = ["add", "sub", "mul", "truediv", "floordiv", "mod", "pow", "and", "or", "xor"]
CMP = ["equal", "not_equal", "less", "less_equal", "greater", "greater_equal"]
LOGICAL = ["logical_and", "logical_or"]
MINMAX = ["maximum", "minimum"]
UNARY = ["neg", "abs", "conj", "real", "imag", "logical_not", "sqrt", "sin", "exp", "log",
         "arctan", "tanh", "isnan", "zeros_like", "ones_like"]
REDN = ["sum", "prod", "amax", "amin", "all", "any"]
SCALARS = [("py", "bool"), ("py", "int"), ("py", "float"), ("py", "complex")]
SHAPE_PAIRS = [((3,), (3,)), ((2, 3), (3,)), ((3,), (2, 3)), ((2, 1), (1, 3)), ((2, 3), ()),
               ((), (2, 3)), ((0, 3), (1, 3)), ((2, 3), (2, 3)), ((1,), (4,)), ((2, 0), (2, 1)),
               # non-broadcastable
               ((2, 3), (2,)), ((3,), (4,)), ((2, 3), (3, 2)), ((0,), (2,)), ((2, 3, 4), (3, 1, 4)),
               ((2, 1, 4), (3, 4))]


def kcls(d: Any) -> str:
    d = np.dtype(d)
    return d.kind + (str(d.itemsize) if d.kind != "b" else "")


def plan(tier: str, seed: int) -> list[dict[str, Any]]:
    rng = common.rng_for(seed, "c03")
    thorough = tier == "thorough"
    full = True          # construction-only checks are cheap: the full grid also in quick
    dts = DT
    cases: list[dict[str, Any]] = []
    # binary-like
    for op in BINOPS + CMP + LOGICAL + MINMAX + ["arctan2"]:
        for d1, d2 in itertools.product(dts, dts):
            sps = SHAPE_PAIRS if thorough else rng.sample(SHAPE_PAIRS, 5)
            for s1, s2 in sps:
                cases.append({"k": "bin", "op": op, "a": ["arr", d1, list(s1)],
                              "b": ["arr", d2, list(s2)]})
        for d1 in dts:
            for sk in SCALARS + [("np", d) for d in dts]:
                for pos in (0, 1):
                    arr = ["arr", d1, [2, 3]]
                    sc = [sk[0], sk[1]]
                    cases.append({"k": "bin", "op": op, "a": arr if pos == 0 else sc,
                                  "b": sc if pos == 0 else arr})
    # where
    for dc in ["bool", "int32", "float64"]:
        for dx, dy in itertools.product(dts, dts):
            if not thorough and rng.random() < 0.3:
                continue
            shp = rng.choice([((2, 3), (2, 3), (2, 3)), ((2, 3), (3,), (2, 1)), ((3,), (2, 3), ()),
                              ((2, 3), (2,), (3,)), ((4,), (3,), (4,))])
            cases.append({"k": "where", "c": ["arr", dc, list(shp[0])],
                          "x": ["arr", dx, list(shp[1])], "y": ["arr", dy, list(shp[2])]})
        for dx in dts:
            for sk in SCALARS + [("np", "float32"), ("np", "int64")]:
                cases.append({"k": "where", "c": ["arr", dc, [2, 3]], "x": ["arr", dx, [2, 3]],
                              "y": [sk[0], sk[1]]})
                cases.append({"k": "where", "c": ["arr", dc, [2, 3]], "x": [sk[0], sk[1]],
                              "y": ["arr", dx, [3]]})
    # unary
    for op in UNARY:
        for d in dts:
            for shp in [(3,), (2, 3), (), (0, 2)]:
                cases.append({"k": "un", "op": op, "a": ["arr", d, list(shp)]})
    # astype
    for d1, d2 in itertools.product(dts, dts):
        cases.append({"k": "astype", "a": ["arr", d1, [2, 3]], "to": d2})
    # reductions
    for op in REDN:
        for d in dts:
            for shp in [(3,), (2, 3), (2, 3, 4), (), (0, 3), (2, 0)]:
                nd = len(shp)
                axes: list[Any] = [None] + list(range(-nd - 1, nd + 2))
                for k in range(2, nd + 1):
                    axes.extend(itertools.combinations(range(nd), k))
                axes.append((0, 0))
                for ax in axes:
                    if not thorough and rng.random() < 0.3:
                        continue
                    cases.append({"k": "red", "op": op, "a": ["arr", d, list(shp)],
                                  "axis": ax if not isinstance(ax, tuple) else list(ax)})
    # structural with axis arguments
    for shp in [(3,), (2, 3), (2, 3, 4), (), (0, 3), (1, 3, 1)]:
        nd = len(shp)
        for ax in range(-nd - 2, nd + 3):
            for narr in (1, 2, 3):
                cases.append({"k": "stack", "shapes": [list(shp)] * narr, "axis": ax,
                              "dts": [rng.choice(dts) for _ in range(narr)]})
                cases.append({"k": "concatenate", "shapes": [list(shp)] * narr, "axis": ax,
                              "dts": [rng.choice(dts) for _ in range(narr)]})
            cases.append({"k": "roll", "shape": list(shp), "axis": ax,
                          "shift": rng.randrange(-5, 6)})
            cases.append({"k": "expand_dims", "shape": list(shp), "axis": ax})
            cases.append({"k": "squeeze", "shape": list(shp), "axis": [ax]})
        cases.append({"k": "squeeze", "shape": list(shp), "axis": None})
        cases.append({"k": "roll", "shape": list(shp), "axis": None, "shift": 2})
        for perm in list(itertools.permutations(range(nd)))[:6] + \
                [tuple(range(nd - 1)), (0,) * nd, tuple(range(1, nd + 1))]:
            cases.append({"k": "transpose", "shape": list(shp), "axes": list(perm)})
        cases.append({"k": "transpose", "shape": list(shp), "axes": None})
        # the whole space of small axis tuples -- every length up to ndim+1, repeated,
        # negative, unsorted and out-of-range entries -- not a hand-picked list
        def tuples(vals: range, maxlen: int) -> list[tuple[int, ...]]:
            return [t for ln in range(0, maxlen + 1) for t in itertools.product(vals, repeat=ln)]
        cap = 4000 if thorough else 250
        for fam, space in (("transpose", tuples(range(-nd, nd + 1), nd + 1)),
                           ("expand_dims", tuples(range(-nd - 2, nd + 2), 3)),
                           ("squeeze", tuples(range(-nd - 1, nd + 1), min(nd, 2) + 1))):
            if len(space) > cap:
                space = rng.sample(space, cap)
            for t in space:
                if fam == "transpose":
                    cases.append({"k": "transpose", "shape": list(shp), "axes": list(t)})
                else:
                    cases.append({"k": fam, "shape": list(shp), "axis": list(t)})
        red_space = tuples(range(-nd - 1, nd + 1), min(nd, 3))
        for t in (red_space if len(red_space) <= cap // 4 else rng.sample(red_space, cap // 4)):
            cases.append({"k": "red", "op": rng.choice(REDN), "a": ["arr", rng.choice(dts), list(shp)],
                          "axis": list(t)})
        for k in range(1, 3):
            for axs in itertools.combinations(range(-nd - k - 1, nd + k + 1), k):
                if rng.random() < 0.3:
                    cases.append({"k": "expand_dims", "shape": list(shp), "axis": list(axs)})
    # mismatching stack / concatenate
    for s1, s2 in [((2, 3), (2, 4)), ((2, 3), (3, 3)), ((2, 3), (2, 3, 1)), ((0,), (1,)),
                   ((2, 3), (2, 3))]:
        for ax in range(-1, 3):
            cases.append({"k": "stack", "shapes": [list(s1), list(s2)], "axis": ax,
                          "dts": ["float64", "int32"]})
            cases.append({"k": "concatenate", "shapes": [list(s1), list(s2)], "axis": ax,
                          "dts": ["float64", "int32"]})
    # reshape
    for shp in [(6,), (2, 3), (2, 3, 4), (0, 3), (), (1,), (4, 0, 2)]:
        size = int(np.prod(shp))
        news = [(-1,), (size,), (2, -1), (-1, 3), (3, -1, 2), (-1, -1), (size + 1,), (0, -1),
                (1, size), (size, 1, 1), (), (2, 2), (-2,), (0,), (5, -1)]
        for new in news:
            for order in ("C", "F"):
                cases.append({"k": "reshape", "shape": list(shp), "new": list(new),
                              "order": order})
    # indexing: ints, slices, too many indices, ellipsis
    for n in range(0, 7):
        for i in range(-n - 2, n + 2):
            cases.append({"k": "index", "shape": [n], "index": [["i", i]]})
            cases.append({"k": "index", "shape": [2, n], "index": [["s", None, None, None],
                                                                   ["i", i]]})
        for st, sp, step in itertools.product([None, -8, -1, 0, 2, 9], [None, -8, -1, 0, 3, 9],
                                              [None, 1, -1, 2, -3, 0]):
            cases.append({"k": "index", "shape": [n], "index": [["s", st, sp, step]]})
    for idx in ([["i", 0], ["i", 0]], [["e"], ["e"]], [["i", 0], ["e"], ["i", 1]],
                [["s", None, None, None]] * 3, [["e"]], [["e"], ["i", 1]]):
        for shp in [(3,), (2, 3), (2, 3, 4)]:
            cases.append({"k": "index", "shape": list(shp), "index": idx})
    # advanced indexing acceptance
    for shp, ishapes in [((4, 5), [(3,), (3,)]), ((4, 5), [(3,), (2,)]), ((4, 5, 6), [(2, 1), (3,)]),
                         ((4, 5, 6), [(2,), (3,)]), ((4,), [(2, 2)]), ((4, 5), [(0,), (1,)])]:
        for idt in ["int32", "int64", "uint8", "float64", "bool"]:
            cases.append({"k": "advindex", "shape": list(shp), "ishapes": [list(s) for s in ishapes],
                          "idt": idt})
    # einsum specs
    for spec, shapes in [("ij,jk->ik", [(2, 3), (3, 4)]), ("ij,jk->ik", [(2, 3), (4, 4)]),
                         ("ij,jk->ik", [(2, 3)]), ("ij->ii", [(2, 2)]), ("ii->i", [(2, 3)]),
                         ("ij->k", [(2, 3)]), ("ijk->ij", [(2, 3)]), ("i,i->", [(3,), (1,)]),
                         ("i,i->", [(3,), (2,)]), ("ij,ij->", [(2, 3), (2, 1)]), ("->", [()]),
                         ("i->i", [()]), ("i j,jk -> ik", [(2, 3), (3, 2)]), ("ij", [(2, 3)])]:
        for d in ["float64", "int32"]:
            cases.append({"k": "einsum", "spec": spec, "shapes": [list(s) for s in shapes],
                          "d": d})
    # matmul / dot / vdot
    for s1, s2 in [((3,), (3,)), ((2, 3), (3,)), ((3,), (3, 2)), ((2, 3), (3, 4)), ((2, 3), (4, 3)),
                   ((5, 2, 3), (3, 4)), ((5, 2, 3), (5, 3, 4)), ((5, 2, 3), (4, 3, 4)), ((), (3,)),
                   ((3,), (4,)), ((1, 2, 3), (5, 3, 4)), ((2, 2, 3), (3,))]:
        for d1, d2 in [("float64", "float64"), ("int32", "float32"), ("int8", "uint8"),
                       ("bool", "bool"), ("complex64", "float64")]:
            for fn in ("matmul", "dot", "vdot"):
                cases.append({"k": "mm", "fn": fn, "s1": list(s1), "s2": list(s2), "d1": d1,
                              "d2": d2})
    # creation / broadcast_to / pad
    for d in dts + [None]:
        for shp in [(3,), (2, 3), (), (0,)]:
            cases.append({"k": "create", "fn": "zeros", "shape": list(shp), "d": d})
            cases.append({"k": "create", "fn": "ones", "shape": list(shp), "d": d})
            for fv in [0, 1.5, True, 2 + 1j, 7]:
                cases.append({"k": "create", "fn": "full", "shape": list(shp), "d": d,
                              "fill": repr(fv)})
        cases.append({"k": "create", "fn": "eye", "N": 3, "M": 4, "kk": 1, "d": d})
        cases.append({"k": "create", "fn": "eye", "N": 0, "M": None, "kk": -1, "d": d})
        for a in [(5,), (2, 8), (8, 2, -2), (0, 5, 2), (3, 3), (1, 10, 3), (5, 0, -1)]:
            if d is not None and np.dtype(d).kind in "iuf":
                cases.append({"k": "create", "fn": "arange", "args": list(a), "d": d})
        # ... and the whole space of small argument triples (empty ranges, steps pointing
        # away from stop, negative bounds), not only the hand-picked ones above
        if d is not None and np.dtype(d).kind in "iuf":
            space = [(a0,) for a0 in range(-3, 6)] + \
                [(a0, a1) for a0 in range(-4, 6) for a1 in range(-4, 6)] + \
                [(a0, a1, st) for a0 in range(-4, 6) for a1 in range(-4, 6)
                 for st in (-3, -2, -1, 1, 2, 3)]
            for a in (space if thorough else rng.sample(space, 120)):
                cases.append({"k": "create", "fn": "arange", "args": list(a), "d": d})
            for n_ in range(0, 4):
                for m_ in (None, 0, 1, 2, 3):
                    for kk in range(-3, 4):
                        if thorough or rng.random() < 0.3:
                            cases.append({"k": "create", "fn": "eye", "N": n_, "M": m_,
                                          "kk": kk, "d": d})
    for shp, to in [((3,), (2, 3)), ((2, 3), (3,)), ((1, 3), (4, 3)), ((2, 3), (2, 4)),
                    ((), (2, 2)), ((3, 1), (3, 0)), ((3,), (3, 3)), ((2,), (3,))]:
        cases.append({"k": "broadcast_to", "shape": list(shp), "to": list(to)})
    for shp, pw in [((3,), [(1, 2)]), ((2, 3), [(0, 1), (2, 0)]), ((2, 3), 1), ((2, 3), (1, 2)),
                    ((2, 3), [(1, 1)]), ((3,), [(0, 0)]), ((0, 2), [(1, 1), (0, 0)])]:
        for d in ["float64", "int32", "bool"]:
            cases.append({"k": "pad", "shape": list(shp), "pw": pw if isinstance(pw, int)
                          else [list(p) if isinstance(p, tuple) else p for p in
                                (pw if isinstance(pw, list) else list(pw))], "d": d})
    # three operands: the whole space of small shape triples (which operand carries the unit
    # or missing axis, and in which position, must not matter)
    small = [(), (1,), (2,), (3,), (1, 1), (2, 1), (1, 3), (2, 3), (0,), (1, 0)]
    tri = list(itertools.product(small, repeat=3))
    for s1, s2, s3 in (tri if thorough else rng.sample(tri, 250)):
        cases.append({"k": "where", "c": ["arr", "bool", list(s1)],
                      "x": ["arr", "float64", list(s2)], "y": ["arr", "int32", list(s3)]})
    for s1, s2, s3 in (tri if thorough else rng.sample(tri, 250)):
        cases.append({"k": "advindex", "shape": [4, 5, 6],
                      "ishapes": [list(s1), list(s2), list(s3)], "idt": "int64"})
    for s1, s2 in itertools.product(small, repeat=2):
        cases.append({"k": "advindex", "shape": [4, 5, 6], "ishapes": [list(s1), list(s2)],
                      "idt": "int32"})
    # whole small spaces instead of hand-picked lists: pad widths, roll shifts, new shapes
    cap2 = 100000 if thorough else 150
    pw_space: list[tuple[list[int], Any]] = []
    for shp in [(3,), (2, 3), (0, 2), (1,), ()]:
        nd = len(shp)
        pw_space += [(list(shp), w) for w in range(-1, 3)]
        pw_space += [(list(shp), [b_, a_]) for b_ in range(-1, 3) for a_ in range(0, 3)]
        pw_space += [(list(shp), [[b_, a_] for b_, a_ in combo])
                     for n_ in {1, nd, nd + 1} if n_ >= 1
                     for combo in itertools.product(
                         [(0, 0), (0, 2), (1, 0), (2, 1), (-1, 0)], repeat=n_)]
    for shp_, pw in (pw_space if len(pw_space) <= cap2 else rng.sample(pw_space, cap2)):
        cases.append({"k": "pad", "shape": shp_, "pw": pw, "d": rng.choice(["float64", "int32"])})
    roll_space = [(list(shp), sh_, ax) for shp in [(3,), (2, 3), (1, 4), (0, 2), ()]
                  for sh_ in range(-7, 8) for ax in [None, *range(-len(shp) - 1, len(shp) + 1)]]
    for shp_, sh_, ax in (roll_space if len(roll_space) <= cap2 else rng.sample(roll_space, cap2)):
        cases.append({"k": "roll", "shape": shp_, "axis": ax, "shift": sh_})
    rs_space = [(list(shp), list(new), order)
                for shp in [(6,), (2, 3), (2, 3, 2), (0, 3), (), (1,), (1, 1)]
                for ln in range(0, 4) for new in itertools.product((-1, 0, 1, 2, 3, 6), repeat=ln)
                for order in ("C", "F", "c", "f")]
    for shp_, new_, order in (rs_space if len(rs_space) <= cap2 else rng.sample(rs_space, cap2 * 2)):
        cases.append({"k": "reshape", "shape": shp_, "new": new_, "order": order})
    # random programs: every intermediate node
    nprog = 30000 if thorough else 2500
    for i in range(nprog):
        cases.append({"k": "prog", "seed": common.sub_seed(seed, "c03prog", i) & 0x7FFFFFFF,
                      "profile": ["mixed", "elementwise", "reduce", "index", "einsum",
                                  "zero"][i % 6]})
    rng.shuffle(cases)
    return [{"cases": c} for c in common.split_even(cases, common.NCPU * (1 if not thorough
                                                                          else 4))]


# ---------------------------------------------------------------------------


def mk(spec: list[Any], name: str) -> tuple[Any, Any, str]:
    """-> (pytato operand, numpy operand, kind tag)"""
    import pytato as pt
    if spec[0] == "arr":
        dt = np.dtype(spec[1])
        shp = tuple(spec[2])
        npv = np.ones(shp, dtype=dt)
        return pt.make_placeholder(name, shp, dt), npv, f"arr-{kcls(dt)}"
    if spec[0] == "py":
        v = {"bool": True, "int": 3, "float": 2.5, "complex": 1 + 2j}[spec[1]]
        return v, v, f"py-{spec[1]}"
    dt = np.dtype(spec[1])
    v = dt.type(1)
    return v, v, f"np-{kcls(dt)}"


NP_SHAPE_ERRORS: tuple[type, ...] = (ValueError, IndexError)


def np_call(fn: Any) -> tuple[str, Any]:
    """-> ("ok", result) | ("shape-error", exc) | ("other-error", exc)"""
    try:
        with np.errstate(all="ignore"):
            import warnings
            with warnings.catch_warnings():
                warnings.simplefilter("ignore")
                return "ok", fn()
    except TypeError as e:
        return "other-error", e
    except (np.exceptions.AxisError, IndexError) as e:
        return "shape-error", e
    except ValueError as e:
        return "shape-error", e
    except Exception as e:  # noqa: BLE001
        return "other-error", e


def pt_call(fn: Any) -> tuple[str, Any]:
    """-> ("ok", array) | ("raises", exc) | ("late", exc)"""
    import pytato as pt
    try:
        r = fn()
    except Exception as e:  # noqa: BLE001
        return "raises", e
    if isinstance(r, pt.Array):
        try:
            _ = (r.shape, r.dtype, r.ndim)
        except Exception as e:  # noqa: BLE001
            return "late", e
    return "ok", r


def judge(col: common.Collector, func: str, cell: str, npres: tuple[str, Any],
          ptres: tuple[str, Any], case: dict[str, Any], nontrivial: bool = True) -> None:
    import pytato as pt
    nps, npv = npres
    pts, ptv = ptres
    sample = {"case": case}
    if nps == "other-error":
        col.count("numpy_other_error")
        col.case()
        return
    if nps == "shape-error":
        col.count("mon.numpy_rejects")
        if pts == "ok":
            col.violation(f"C03:accepts-numpy-rejected:{func}:{cell}",
                          f"NumPy rejects ({type(npv).__name__}: {str(npv)[:80]}) but pytato "
                          f"builds {type(ptv).__name__}", {"case": case})
        elif pts == "late":
            col.violation(f"C03:late-rejection:{func}:{cell}",
                          f"NumPy rejects ({type(npv).__name__}); pytato accepts at construction "
                          f"and fails only on .shape/.dtype access with "
                          f"{type(ptv).__name__}: {str(ptv)[:80]}", {"case": case})
        else:
            col.count("both_reject")
        col.case(common.stable_hash(case), True, sample)
        return
    # NumPy ok
    if pts == "raises":
        col.count("pytato_stricter")
        col.histo("stricter", f"{func}:{type(ptv).__name__}")
        col.case()
        return
    if pts == "late":
        col.violation(f"C03:late-error:{func}:{cell}",
                      "accepted at construction, but .shape/.dtype access raises "
                      f"{type(ptv).__name__}: {str(ptv)[:80]}", {"case": case})
        col.case()
        return
    col.count("mon.compared")
    npa = np.asarray(npv)
    if isinstance(ptv, pt.Array):
        try:
            pshape = tuple(int(s) for s in ptv.shape)
        except Exception:  # noqa: BLE001
            pshape = None
        pdtype = ptv.dtype
    else:
        pa = np.asarray(ptv)
        pshape, pdtype = pa.shape, pa.dtype
    if pshape != npa.shape:
        col.violation(f"C03:shape:{func}:{cell}", f"pytato shape {pshape} != NumPy {npa.shape}",
                      {"case": case})
    if not isinstance(pdtype, np.dtype):
        col.violation(f"C03:dtype-not-a-dtype:{func}:{cell}",
                      f".dtype is {pdtype!r}, not a numpy dtype", {"case": case})
    elif pdtype != npa.dtype:
        col.violation(f"C03:dtype:{func}:{cell}:{kcls(npa.dtype)}->{kcls(pdtype)}",
                      f"pytato dtype {pdtype} != NumPy {npa.dtype}", {"case": case})
    col.case(common.stable_hash(case), nontrivial, sample)


def check_case(case: dict[str, Any], col: common.Collector) -> None:
    import operator as o

    import pytato as pt
    k = case["k"]
    col.histo("family", k)
    if k == "bin":
        a_pt, a_np, ka = mk(case["a"], "a")
        b_pt, b_np, kb = mk(case["b"], "b")
        op = case["op"]
        if op in BINOPS:
            fn = {"add": o.add, "sub": o.sub, "mul": o.mul, "truediv": o.truediv,
                  "floordiv": o.floordiv, "mod": o.mod, "pow": o.pow, "and": o.and_,
                  "or": o.or_, "xor": o.xor}[op]
            npres = np_call(lambda: fn(a_np, b_np))
            ptres = pt_call(lambda: fn(a_pt, b_pt))
        else:
            npres = np_call(lambda: getattr(np, op)(a_np, b_np))
            ptres = pt_call(lambda: getattr(pt, op)(a_pt, b_pt))
        nt = case["a"][1:] != case["b"][1:] or case["a"][0] != "arr" or case["b"][0] != "arr"
        judge(col, op, f"{ka},{kb}", npres, ptres, case, nt)
    elif k == "where":
        c_pt, c_np, kc = mk(case["c"], "c")
        x_pt, x_np, kx = mk(case["x"], "x")
        y_pt, y_np, ky = mk(case["y"], "y")
        judge(col, "where", f"{kx},{ky}", np_call(lambda: np.where(c_np, x_np, y_np)),
              pt_call(lambda: pt.where(c_pt, x_pt, y_pt)), case)
    elif k == "un":
        a_pt, a_np, ka = mk(case["a"], "a")
        op = case["op"]
        npf = {"neg": np.negative, "abs": np.abs, "conj": np.conj, "real": np.real,
               "imag": np.imag, "logical_not": np.logical_not, "zeros_like": np.zeros_like,
               "ones_like": np.ones_like}.get(op) or getattr(np, op)
        ptf = {"neg": o.neg, "abs": abs, "conj": lambda x: x.conj(), "real": lambda x: x.real,
               "imag": lambda x: x.imag}.get(op) or getattr(pt, op)
        judge(col, op, ka, np_call(lambda: npf(a_np)), pt_call(lambda: ptf(a_pt)), case,
              case["a"][2] != [3])
    elif k == "astype":
        a_pt, a_np, ka = mk(case["a"], "a")
        import warnings
        judge(col, "astype", f"{ka}->{kcls(case['to'])}",
              np_call(lambda: a_np.astype(case["to"])),
              pt_call(lambda: a_pt.astype(np.dtype(case["to"]))), case,
              case["a"][1] != case["to"])
        del warnings
    elif k == "red":
        a_pt, a_np, ka = mk(case["a"], "a")
        ax = case["axis"]
        ax = tuple(ax) if isinstance(ax, list) else ax
        npf = {"sum": np.sum, "prod": np.prod, "amax": np.max, "amin": np.min, "all": np.all,
               "any": np.any}[case["op"]]
        judge(col, case["op"], ka, np_call(lambda: npf(a_np, axis=ax)),
              pt_call(lambda: getattr(pt, case["op"])(a_pt, axis=ax)), case)
    elif k in ("stack", "concatenate"):
        nps = [np.ones(tuple(s), dtype=d) for s, d in zip(case["shapes"], case["dts"])]
        pts = [pt.make_placeholder(f"a{i}", tuple(s), np.dtype(d))
               for i, (s, d) in enumerate(zip(case["shapes"], case["dts"]))]
        judge(col, k, "arr", np_call(lambda: getattr(np, k)(nps, axis=case["axis"])),
              pt_call(lambda: getattr(pt, k)(pts, axis=case["axis"])), case)
    elif k == "roll":
        a = np.ones(tuple(case["shape"]))
        A = pt.make_placeholder("a", a.shape, a.dtype)
        judge(col, "roll", "arr", np_call(lambda: np.roll(a, case["shift"], axis=case["axis"])),
              pt_call(lambda: pt.roll(A, case["shift"], axis=case["axis"])), case)
    elif k == "expand_dims":
        a = np.ones(tuple(case["shape"]))
        A = pt.make_placeholder("a", a.shape, a.dtype)
        ax = case["axis"]
        ax = tuple(ax) if isinstance(ax, list) else ax
        judge(col, "expand_dims", "arr", np_call(lambda: np.expand_dims(a, ax)),
              pt_call(lambda: pt.expand_dims(A, ax)), case)
    elif k == "squeeze":
        a = np.ones(tuple(case["shape"]))
        A = pt.make_placeholder("a", a.shape, a.dtype)
        ax = case["axis"]
        ax = tuple(ax) if isinstance(ax, list) else ax
        judge(col, "squeeze", "arr", np_call(lambda: np.squeeze(a, ax)),
              pt_call(lambda: pt.squeeze(A, ax)), case)
    elif k == "transpose":
        a = np.ones(tuple(case["shape"]))
        A = pt.make_placeholder("a", a.shape, a.dtype)
        judge(col, "transpose", "arr", np_call(lambda: np.transpose(a, case["axes"])),
              pt_call(lambda: pt.transpose(A, case["axes"])), case)
    elif k == "reshape":
        a = np.ones(tuple(case["shape"]))
        A = pt.make_placeholder("a", a.shape, a.dtype)
        judge(col, "reshape", "arr",
              np_call(lambda: np.reshape(a, tuple(case["new"]), order=case["order"])),
              pt_call(lambda: pt.reshape(A, tuple(case["new"]), order=case["order"])), case)
    elif k == "index":
        from vf.checks.c02 import _decode_index
        a = np.ones(tuple(case["shape"]))
        A = pt.make_placeholder("a", a.shape, a.dtype)
        idx, _arrs = _decode_index(case["index"])
        judge(col, "getitem", "basic", np_call(lambda: a[idx]), pt_call(lambda: A[idx]), case)
    elif k == "advindex":
        a = np.ones(tuple(case["shape"]))
        A = pt.make_placeholder("a", a.shape, a.dtype)
        nis = [np.zeros(tuple(s), dtype=case["idt"]) for s in case["ishapes"]]
        pis = [pt.make_placeholder(f"i{j}", tuple(s), np.dtype(case["idt"]))
               for j, s in enumerate(case["ishapes"])]
        if case["idt"] == "bool":
            col.count("numpy_other_error")     # boolean masks: data-dependent shape
            col.case()
            return
        judge(col, "getitem", f"advanced-{kcls(case['idt'])}", np_call(lambda: a[tuple(nis)]),
              pt_call(lambda: A[tuple(pis)]), case)
    elif k == "einsum":
        nps = [np.ones(tuple(s), dtype=case["d"]) for s in case["shapes"]]
        pts = [pt.make_placeholder(f"a{i}", tuple(s), np.dtype(case["d"]))
               for i, s in enumerate(case["shapes"])]
        if "->" not in case["spec"]:
            col.count("outside_fragment")       # implicit mode: documented unsupported
            col.case()
            return
        judge(col, "einsum", "arr", np_call(lambda: np.einsum(case["spec"], *nps)),
              pt_call(lambda: pt.einsum(case["spec"], *pts)), case)
    elif k == "mm":
        a = np.ones(tuple(case["s1"]), dtype=case["d1"])
        b = np.ones(tuple(case["s2"]), dtype=case["d2"])
        A = pt.make_placeholder("a", a.shape, a.dtype)
        B = pt.make_placeholder("b", b.shape, b.dtype)
        fn = case["fn"]
        npf = {"matmul": np.matmul, "dot": np.dot, "vdot": np.vdot}[fn]
        ptf = {"matmul": lambda x, y: x @ y, "dot": pt.dot, "vdot": pt.vdot}[fn]
        judge(col, fn, f"arr-{kcls(a.dtype)},arr-{kcls(b.dtype)}", np_call(lambda: npf(a, b)),
              pt_call(lambda: ptf(A, B)), case)
    elif k == "create":
        fn = case["fn"]
        d = case.get("d")
        if fn in ("zeros", "ones"):
            kw = {} if d is None else {"dtype": d}
            judge(col, fn, "default-dtype" if d is None else kcls(d),
                  np_call(lambda: getattr(np, fn)(tuple(case["shape"]), **kw)),
                  pt_call(lambda: getattr(pt, fn)(tuple(case["shape"]), **kw)), case)
        elif fn == "full":
            fv = eval(case["fill"])  # noqa: S307 -- literal from plan()
            kw = {} if d is None else {"dtype": d}
            judge(col, fn, ("default-dtype" if d is None else kcls(d)) + ":" +
                  type(fv).__name__, np_call(lambda: np.full(tuple(case["shape"]), fv, **kw)),
                  pt_call(lambda: pt.full(tuple(case["shape"]), fv, **kw)), case)
        elif fn == "eye":
            kw = {} if d is None else {"dtype": d}
            judge(col, fn, "default-dtype" if d is None else kcls(d),
                  np_call(lambda: np.eye(case["N"], case["M"], case["kk"], **kw)),
                  pt_call(lambda: pt.eye(case["N"], case["M"], case["kk"], **kw)), case)
        elif fn == "arange":
            judge(col, fn, kcls(d), np_call(lambda: np.arange(*case["args"], dtype=d)),
                  pt_call(lambda: pt.arange(*case["args"], dtype=np.dtype(d))), case)
    elif k == "broadcast_to":
        a = np.ones(tuple(case["shape"]))
        A = pt.make_placeholder("a", a.shape, a.dtype)
        judge(col, "broadcast_to", "arr", np_call(lambda: np.broadcast_to(a, tuple(case["to"]))),
              pt_call(lambda: pt.broadcast_to(A, tuple(case["to"]))), case)
    elif k == "pad":
        a = np.ones(tuple(case["shape"]), dtype=case["d"])
        A = pt.make_placeholder("a", a.shape, a.dtype)
        pw = case["pw"]
        pw2 = pw if isinstance(pw, int) else ([tuple(p) if isinstance(p, list) else p for p in pw]
                                              if isinstance(pw[0], list) else tuple(pw))
        judge(col, "pad", "arr", np_call(lambda: np.pad(a, pw2)),
              pt_call(lambda: pt.pad(A, pw2)), case)
    elif k == "prog":
        from vf.gen import proggen
        from vf.gen import progspec as ps
        spec = proggen.generate(case["seed"], case["profile"], opts={"no_loopy": True})
        try:
            sh = ps.Shadow(spec, 0, pure_numpy=True)
            b = ps.PtBuild(spec)
        except Exception:  # noqa: BLE001 -- construction failures are C01's
            col.count("program_not_built")
            col.case()
            return
        for n in spec["nodes"]:
            node = b.nodes[n["id"]]
            ref = sh.vals[n["id"]]
            if not isinstance(node, pt.Array) or isinstance(ref, dict):
                continue
            # only the FIRST deviation along a path is a finding: skip nodes whose operands
            # already deviate from NumPy (their deviation is reported at its origin)
            propagated = False
            for a in n["args"]:
                if ps.is_ref(a) and isinstance(b.nodes[a], pt.Array) and \
                        not isinstance(sh.vals[a], dict):
                    ra = np.asarray(sh.vals[a])
                    if b.nodes[a].dtype != ra.dtype:
                        propagated = True
            if propagated:
                col.count("program_nodes_downstream_of_a_deviation")
                continue
            col.count("mon.compared")
            col.count("mon.program_nodes")
            ref = np.asarray(ref)
            try:
                pshape = tuple(int(s) for s in node.shape)
            except Exception as e:  # noqa: BLE001
                col.violation(f"C03:late-error:{n['op']}:program",
                              f"{type(e).__name__} on .shape", {"case": case, "node": n})
                continue
            kinds = ",".join(("arr-" + kcls(np.asarray(sh.vals[a]).dtype)) if ps.is_ref(a)
                             else f"{a[0]}-{a[1] if a[0] == 'py' else kcls(a[1])}"
                             for a in n["args"])
            if pshape != ref.shape:
                col.violation(f"C03:shape:{n['op']}:{kinds}",
                              f"node {n['id']} ({n['op']}): {pshape} vs NumPy {ref.shape}",
                              {"case": case, "node": n})
            if node.dtype != ref.dtype:
                col.violation(f"C03:dtype:{n['op']}:{kinds}:{kcls(ref.dtype)}->{kcls(node.dtype)}",
                              f"node {n['id']} ({n['op']}): {node.dtype} vs NumPy {ref.dtype}",
                              {"case": case, "node": n})
        col.case(common.stable_hash(spec), True, {"profile": case["profile"],
                                                  "ops": ps.node_kinds(spec)})
    else:
        raise ValueError(k)


def run_shard(shard: dict[str, Any], col: common.Collector) -> None:
    import warnings
    warnings.simplefilter("ignore")
    for case in shard["cases"]:
        try:
            check_case(case, col)
        except Exception as e:  # noqa: BLE001
            import traceback
            col.violation(f"C03:harness-exception:{case['k']}:{type(e).__name__}@"
                          f"{common.exc_site(e, ('vf',))}",
                          f"unexpected {type(e).__name__}: {str(e)[:200]}",
                          {"case": case, "tb": traceback.format_exc()[-1500:]})


def replay(witness: dict[str, Any], col: common.Collector) -> None:
    check_case(witness["case"], col)
