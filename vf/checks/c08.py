"""C08 -- partitioned distributed execution terminates and is faithful in all schedules.

Every generated multi-rank program is partitioned on the simulated MPI (real
find_distributed_partition / number_distributed_tags on every rank), then
execute_distributed_partition runs on every rank under MANY schedules: the scheduler owns
which rank proceeds at every MPI call and which subset of completable receives Waitsome
reports.  Small instances: the whole choice tree is enumerated (stateless DFS by
re-execution); larger ones: adversarial random schedules.  An offline checker reads the
event log of each run:

  termination   no deadlock, no rank over its MPI-call budget (bounded progress), all ranks
                return
  faithful      every rank's outputs == global data-flow reference (bitwise)
  context       no read of a name that was never set or already released; nothing released
                twice; executor's own final assertions hold
  exactly-once  every message sent is received exactly once by a receive with the same
                (src, dst, tag), shape and dtype; no posted receive or message left over
  part-order    a part runs after the parts it needs and after its receives completed
"""
from __future__ import annotations

from typing import Any

import numpy as np

from vf import common
from vf.gen import distgen

LEVEL = "exploration"
RULE = ("for every schedule: all ranks return within the step budget; outputs == global "
        "reference; context get only after set and before del; each message delivered exactly "
        "once to a matching receive; parts run after needed parts and receives")
ASSUMPTIONS = ["simulated MPI: eager non-blocking sends, non-overtaking per (src,dst,tag), "
               "Waitsome may report any non-empty subset of completable requests",
               "part programs are reference-evaluator callables (sampled: real generate_loopy "
               "+ C runner)"]
MIN_MONITOR = {"mon.programs": 100, "mon.schedules": 2000, "mon.messages_checked": 3000,
               "mon.exhaustive_programs": 20, "mon.context_events": 10000}
SHARD_TIMEOUT = {"quick": 900, "thorough": 7200}
N_PROGRAMS = {"quick": 320, "thorough": 3200}
EXH_CAP = {"quick": 400, "thorough": 2400}        # schedules per exhaustively explored program
RANDOM_SCHEDULES = {"quick": 24, "thorough": 80}
STYLES = ["uniform", "last", "first", "all", "one", "uniform"]


def plan(tier: str, seed: int) -> list[dict[str, Any]]:
    rng = common.rng_for(seed, "c08")
    cases = [{"seed": rng.getrandbits(31), "tier": tier, "compiled": i % 10 == 0}
             for i in range(N_PROGRAMS[tier])]
    n = common.NCPU * (1 if tier == "quick" else 4)
    return [{"cases": c} for c in common.split_even(cases, n)]


def check_run(desc: dict[str, Any], er: Any, ref: dict[int, dict[str, np.ndarray]],
              partitions: dict[int, Any]) -> list[tuple[str, str]]:
    """Offline checker over one execution: [(coarse key, description)]."""
    out: list[tuple[str, str]] = []
    w = er.world
    R = desc["nranks"]
    if er.deadlock:
        blocked = next((d for _s, _r, k, d in w.events if k == "deadlock"), None)
        out.append(("C08:deadlock", f"no rank can move while ranks are unfinished: {blocked}"))
    if er.step_limit:
        out.append(("C08:no-progress", "a rank exceeded its MPI-call budget (livelock)"))
    for r, e in er.errors.items():
        out.append((f"C08:rank-raises:{type(e).__name__}@{common.exc_site(e)}",
                    f"rank {r}: {type(e).__name__}: {str(e)[:160]}"))
    if out:
        return out
    for r in range(R):
        if r not in er.outputs:
            out.append(("C08:rank-did-not-return", f"rank {r}"))
    for r, (gone, added) in er.args_modified.items():
        out.append(("C08:callers-input_args-modified",
                    f"rank {r}: execute_distributed_partition changed the dictionary passed as "
                    f"input_args (removed {gone}, added {added})"))
    # faithful
    for r, names in ref.items():
        got = er.outputs.get(r, {})
        if set(got) != set(names):
            out.append(("C08:output-names", f"rank {r}: {sorted(got)} vs {sorted(names)}"))
            continue
        for k, v in names.items():
            g = got[k]
            if g.shape != v.shape or g.dtype != v.dtype or not np.array_equal(g, v):
                out.append(("C08:wrong-value", f"rank {r} output {k}: {g!r} vs reference {v!r}"))
                break
    # context discipline
    for r, log in er.ctx_log.items():
        live: set[str] = set()
        dead: set[str] = set()
        for kind, name in log:
            if kind == "set":
                live.add(name)
                dead.discard(name)
            elif kind == "get":
                if name in dead and name not in live:
                    out.append(("C08:read-after-release", f"rank {r}: {name}"))
            elif kind == "get-missing":
                out.append(("C08:read-before-produce" if name not in dead
                            else "C08:read-after-release", f"rank {r}: {name}"))
            elif kind == "del":
                live.discard(name)
                dead.add(name)
            elif kind == "del-missing":
                out.append(("C08:released-twice", f"rank {r}: {name}"))
    # exactly-once
    for key, msgs in w.mail.items():
        if w.taken.get(key, 0) != len(msgs) or w.posted.get(key, 0) != len(msgs):
            out.append(("C08:message-not-delivered-exactly-once",
                        f"{key}: sent {len(msgs)}, received {w.taken.get(key, 0)}, "
                        f"receives posted {w.posted.get(key, 0)}"))
    for key, n in w.posted.items():
        if key not in w.mail:
            out.append(("C08:receive-never-matched", f"{key}: {n} posted"))
    if w.mismatches:
        out.append(("C08:message-shape-dtype-mismatch", str(w.mismatches[0])))
    # part order
    for r, plog in er.part_log.items():
        done: set[Any] = set()
        p = partitions[r]
        # positions of receive completions and part executions in the global event order are
        # not comparable across logs; the executor calls the part AFTER updating its context
        # from the receives, so it suffices that every received name was set before the part
        # read it -- covered by the context check -- and that needed parts ran before
        for _k, pid, _inputs in plog:
            if not p.parts[pid].needed_pids <= done:
                out.append(("C08:part-before-needed-part", f"rank {r} part {pid}"))
            if pid in done:
                out.append(("C08:part-executed-twice", f"rank {r} part {pid}"))
            done.add(pid)
        if done != set(p.parts):
            out.append(("C08:part-not-executed", f"rank {r}: {sorted(set(p.parts) - done)}"))
    return out


def explore(desc: dict[str, Any], partitions: dict[int, Any], ref: Any, cap: int,
            col: common.Collector, wit: dict[str, Any]) -> tuple[int, bool, list[Any]]:
    """Stateless DFS over the choice tree.  -> (#schedules, exhausted?, problems)"""
    from vf import simmpi
    from vf.exec import distrun
    progs = distrun.prebuilt_programs(partitions)
    stack: list[list[int]] = [[]]
    n = 0
    shared: dict[int, Any] = {}
    problems: list[Any] = []
    seen_traces: set[tuple[int, ...]] = set()
    while stack and n < cap:
        prefix = stack.pop()
        ch = simmpi.ReplayChooser(prefix)
        er = distrun.execute_all(desc, partitions, ch, progs=progs, shared_args=shared)
        n += 1
        trace = ch.trace
        seen_traces.add(tuple(c for _k, _n, c in trace))
        col.count("mon.context_events", sum(len(v) for v in er.ctx_log.values()))
        col.count("mon.messages_checked", sum(len(v) for v in er.world.mail.values()))
        for key, what in check_run(desc, er, ref, partitions):
            problems.append((key, what, [c for _k, _n, c in trace]))
        if problems:
            break
        # branch: for every choice point beyond the prefix, the untried alternatives
        for i in range(len(prefix), len(trace)):
            _kind, arity, c = trace[i]
            for alt in range(arity - 1, 0, -1):      # c == 0 was taken
                stack.append([t[2] for t in trace[:i]] + [alt])
    return n, not stack, problems


def check_case(case: dict[str, Any], col: common.Collector) -> None:
    from vf import simmpi
    from vf.exec import distrun
    desc = case.get("desc") or distgen.generate(case["seed"])
    tier = case.get("tier", "quick")
    wit = {"desc": desc}
    R = desc["nranks"]
    K = sum(1 for it in desc["items"] if it["kind"] == "send")
    pr = distrun.partition_all(desc)
    if not pr.errors and len(pr.partitions) != R:
        col.violation("C08:partitioning-deadlocks-in-collective",
                      f"no rank raised, but only ranks {sorted(pr.partitions)} of {R} returned "
                      f"from the collective partitioning calls; stages {pr.stage}", wit)
        col.case()
        return
    if pr.errors or len(pr.partitions) != R:
        for r, e in pr.errors.items():
            col.violation(f"C08:partitioning-raises:{pr.stage.get(r)}:{type(e).__name__}@"
                          f"{common.exc_site(e)}",
                          f"rank {r} raised {type(e).__name__} while partitioning a valid "
                          f"program: {str(e)[:160]}", wit)
        col.case()
        return
    col.count("mon.programs")
    ref = distgen.reference(desc)
    col.histo("ranks", str(R))
    col.histo("messages", str(K))
    col.histo("pattern", desc["pattern"])
    col.histo("parts_max", str(max(len(p.parts) for p in pr.partitions.values())))
    nsched = 0
    exhaustive = False
    problems: list[Any] = []
    if case.get("schedule") is not None:
        ch = simmpi.ReplayChooser(case["schedule"])
        er = distrun.execute_all(desc, pr.partitions, ch)
        problems = [(k, w, case["schedule"]) for k, w in check_run(desc, er, ref, pr.partitions)]
        nsched = 1
    else:
        small = R <= 3 and K <= 4
        if small:
            nsched, exhaustive, problems = explore(desc, pr.partitions, ref, EXH_CAP[tier], col,
                                                   wit)
            if exhaustive:
                col.count("mon.exhaustive_programs")
        if not problems and not exhaustive:
            progs = distrun.prebuilt_programs(pr.partitions)
            shared: dict[int, Any] = {}      # one input dictionary per rank, reused by all runs
            for j in range(RANDOM_SCHEDULES[tier]):
                ch2 = simmpi.RandomChooser(common.sub_seed(desc["seed"], "sched", j),
                                           STYLES[j % len(STYLES)])
                er = distrun.execute_all(desc, pr.partitions, ch2, progs=progs,
                                         shared_args=shared)
                nsched += 1
                col.count("mon.context_events", sum(len(v) for v in er.ctx_log.values()))
                col.count("mon.messages_checked",
                          sum(len(v) for v in er.world.mail.values()))
                pb = check_run(desc, er, ref, pr.partitions)
                if pb:
                    problems = [(k, w, [c for _k, _n, c in ch2.trace]) for k, w in pb]
                    break
    col.count("mon.schedules", nsched)
    for key, what, sched in problems[:3]:
        col.violation(f"{key}:{desc['pattern']}", what, {**wit, "schedule": sched})
    # sampled: the real code generator for the parts
    if case.get("compiled") and not problems:
        try:
            er = distrun.execute_all(desc, pr.partitions, simmpi.RandomChooser(desc["seed"]),
                                     mode="compiled")
            col.count("mon.compiled_runs")
            for key, what in check_run(desc, er, ref, pr.partitions):
                col.violation(f"{key}:compiled", what, {**wit, "compiled": True})
        except Exception as e:  # noqa: BLE001
            col.histo("compiled_failed", type(e).__name__)
    col.case(common.stable_hash(desc), R >= 2 and K >= 2 and nsched >= 2,
             {"ranks": R, "messages": K, "pattern": desc["pattern"], "schedules": nsched,
              "exhaustive": exhaustive,
              "parts": {str(r): len(p.parts) for r, p in pr.partitions.items()}})


def run_shard(shard: dict[str, Any], col: common.Collector) -> None:
    for case in shard["cases"]:
        try:
            with common.time_limit(600):
                check_case(case, col)
        except common.Timeout:
            col.count("case_timeouts")
        except Exception as e:  # noqa: BLE001
            import traceback
            col.violation(f"C08:harness-exception:{type(e).__name__}@"
                          f"{common.exc_site(e, ('vf',))}",
                          f"unexpected {type(e).__name__}: {str(e)[:200]}",
                          {"case": case, "tb": traceback.format_exc()[-1500:]})


def replay(witness: dict[str, Any], col: common.Collector) -> None:
    check_case({"desc": witness["desc"], "schedule": witness.get("schedule"),
                "compiled": bool(witness.get("compiled")), "tier": "quick"}, col)
