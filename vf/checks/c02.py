"""C02 -- lowering any array node to an index lambda preserves its meaning.

Events: ``to_index_lambda(node)`` -> shape/dtype/axes/tags + the array produced by
the independent masked pointwise interpreter (vf.oracle.ilinterp) on
unique-valued operands; in-mask out-of-bounds subscripts.
Oracle: NumPy applied to the same operands through the *raw* user-level
parameters (Python slices, shifts, permutations, ...).
"""
from __future__ import annotations

import itertools
from typing import Any

import numpy as np

from vf import common

LEVEL = "exploration"
RULE = ("cases enumerated per node kind (exhaustive for 1-D slices/int indices on "
        "axis length 0..6, reshape pairs, rolls, permutations, stack/concatenate in the "
        "stated bounds; seeded-random for embedded slices, advanced indexing, einsum, "
        "CSR); distinct = by case parameters; non-trivial = result has >=2 elements "
        "and is not elementwise-identical to the (first) operand laid out the same way")
ASSUMPTIONS = [
    "NumPy 2.x is the reference for stack/concatenate/roll/transpose/reshape/indexing/einsum",
    "vf.oracle.ilinterp implements the documented IndexLambda meaning (cross-checked "
    "against NumPy on every case: a harness bug would show as a disagreement, not silence)",
    "operands carry pairwise-distinct integer ids so a wrong index map changes a value",
]
MIN_MONITOR = {"mon.value_oracle": 100, "mon.metadata_oracle": 100}
SHARD_TIMEOUT = {"quick": 600, "thorough": 3000}
EXHAUSTIVE = {
    "quick": "1-D slices (start,stop in {None,-7..7}, step in {None,+-1,+-2,+-3,+-6}) and "
             "int indices on axis length 0..6; reshape pairs <=3 axes len<=4 (both orders); "
             "rolls shift in [-2n-1,2n+1] on shapes <=3 axes len<=3; all permutations <=4 axes",
    "thorough": "as quick, plus reshape pairs <=4 axes len<=5 (non-zero-size complete; "
                "zero-size sampled), rolls on len<=5",
}

STARTSTOP = [None] + list(range(-7, 8))
STEPS = [None, 1, -1, 2, -2, 3, -3, 6, -6]


# ---------------------------------------------------------------------------
# planning


def _shapes(max_axes: int, max_len: int, min_len: int = 0) -> list[tuple[int, ...]]:
    out: list[tuple[int, ...]] = []
    for nd in range(max_axes + 1):
        out.extend(itertools.product(range(min_len, max_len + 1), repeat=nd))
    return out


def plan(tier: str, seed: int) -> list[dict[str, Any]]:
    n = common.NCPU
    shards: list[dict[str, Any]] = []
    thorough = tier == "thorough"
    # 1-D slices: split by axis length and start
    blocks: list[dict[str, Any]] = []
    for alen in range(7):
        for st in STARTSTOP:
            blocks.append({"kind": "slice1d", "alen": alen, "start": st})
    for alen in range(1, 7):
        blocks.append({"kind": "int1d", "alen": alen})
    # reshape pairs
    max_axes, max_len = (4, 5) if thorough else (3, 4)
    shapes = _shapes(max_axes, max_len)
    by_size: dict[int, list[tuple[int, ...]]] = {}
    for s in shapes:
        by_size.setdefault(int(np.prod(s, dtype=np.int64)), []).append(s)
    rng = common.rng_for(seed, "c02-reshape")
    pairs: list[tuple[tuple[int, ...], tuple[int, ...]]] = []
    for size, group in sorted(by_size.items()):
        allp = [(a, b) for a in group for b in group]
        cap = (4000 if thorough else 600) if size == 0 else (10**9 if thorough else 1500)
        if len(allp) > cap:
            allp = rng.sample(allp, cap)
        pairs.extend(allp)
    rng.shuffle(pairs)
    for chunk in common.split_even(pairs, n * (4 if thorough else 1)):
        blocks.append({"kind": "reshape", "pairs": chunk})
    # roll
    rshapes = [s for s in _shapes(3, 5 if thorough else 3) if len(s) >= 1]
    for chunk in common.split_even(rshapes, n):
        blocks.append({"kind": "roll", "shapes": chunk})
    # transpose
    tshapes = [s for s in _shapes(4, 3, 0) if len(s) >= 1]
    rng.shuffle(tshapes)
    tshapes = tshapes[: (len(tshapes) if thorough else 120)]
    for chunk in common.split_even(tshapes, n // 2):
        blocks.append({"kind": "transpose", "shapes": chunk})
    # stack/concat
    for chunk in common.split_even([s for s in _shapes(3, 3)], n // 2):
        blocks.append({"kind": "join", "shapes": chunk, "seed": seed})
    # random families
    nrand = (600000 if thorough else 48000)
    for i in range(n):
        for kind in ("embedded", "advanced", "einsum", "csr", "misc"):
            blocks.append({"kind": kind, "count": nrand // n, "seed": common.sub_seed(
                seed, kind, i)})
    rng.shuffle(blocks)
    for chunk in common.split_even(blocks, n):
        shards.append({"blocks": chunk})
    return shards


# ---------------------------------------------------------------------------
# case execution


def _ids(shape: tuple[int, ...], base: int = 1, dtype: Any = np.int64) -> np.ndarray:
    return (np.arange(int(np.prod(shape, dtype=np.int64)), dtype=np.int64)
            .reshape(shape) + base).astype(dtype)


def _decode_index(enc: list[Any]) -> tuple[tuple[Any, ...], list[np.ndarray]]:
    """enc entries: ["s",start,stop,step] | ["i",k] | ["a", nested list, dtype] | ["e"]"""
    out: list[Any] = []
    arrs: list[np.ndarray] = []
    for e in enc:
        if e[0] == "s":
            out.append(slice(e[1], e[2], e[3]))
        elif e[0] == "i":
            out.append(int(e[1]))
        elif e[0] == "e":
            out.append(Ellipsis)
        elif e[0] == "a":
            a = np.array(e[1], dtype=e[2]).reshape(e[3])
            arrs.append(a)
            out.append(a)
        else:
            raise ValueError(e)
    return tuple(out), arrs


def _decorate(node: Any, rng: Any) -> Any:
    """Attach random array tags and axis tags so that 'carried over' is observable."""
    from vf.vtags import VAxisTag, VTag
    node = node.tagged(VTag(rng.randrange(1000)))
    for ax in range(node.ndim):
        if rng.random() < 0.6:
            node = node.with_tagged_axis(ax, VAxisTag(rng.randrange(1000)))
    return node


def build_case(case: dict[str, Any]) -> dict[str, Any]:
    """Returns dict(node=pytato node or None, np=NumPy value or None,
    np_exc=..., pt_exc=..., env=placeholder values, identity_ref=ndarray|None)."""
    import pytato as pt
    kind = case["kind"]
    env: dict[str, np.ndarray] = {}
    res: dict[str, Any] = {"env": env, "node": None, "np": None, "np_exc": None,
                           "pt_exc": None, "first": None}

    def ph(name: str, val: np.ndarray) -> Any:
        env[name] = val
        return pt.make_placeholder(name, val.shape, val.dtype)

    def both(np_fn: Any, pt_fn: Any) -> None:
        try:
            with np.errstate(all="ignore"):
                res["np"] = np_fn()
        except Exception as e:  # noqa: BLE001
            res["np_exc"] = e
        try:
            res["node"] = pt_fn()
        except Exception as e:  # noqa: BLE001
            res["pt_exc"] = e

    if kind == "index":
        a = _ids(tuple(case["shape"]))
        res["first"] = a
        A = ph("a", a)
        idx, arrs = _decode_index(case["index"])
        pt_idx = []
        k = 0
        for e, i in zip(case["index"], idx):
            if e[0] == "a":
                if e[4] == "ph":
                    pt_idx.append(ph(f"i{k}", i))
                else:
                    pt_idx.append(pt.make_data_wrapper(i))
                k += 1
            else:
                pt_idx.append(i)
        both(lambda: a[idx], lambda: A[tuple(pt_idx)])
    elif kind == "reshape":
        a = _ids(tuple(case["old"]))
        res["first"] = a
        A = ph("a", a)
        both(lambda: np.reshape(a, tuple(case["new"]), order=case["order"]),
             lambda: pt.reshape(A, tuple(case["new"]), order=case["order"]))
    elif kind == "roll":
        a = _ids(tuple(case["shape"]))
        res["first"] = a
        A = ph("a", a)
        both(lambda: np.roll(a, case["shift"], axis=case["axis"]),
             lambda: pt.roll(A, case["shift"], axis=case["axis"]))
    elif kind == "transpose":
        a = _ids(tuple(case["shape"]))
        res["first"] = a
        A = ph("a", a)
        both(lambda: np.transpose(a, case["perm"]),
             lambda: pt.transpose(A, case["perm"]))
    elif kind in ("stack", "concatenate"):
        vals = []
        phs = []
        base = 1
        for i, s in enumerate(case["shapes"]):
            v = _ids(tuple(s), base, np.dtype(case["dtypes"][i]))
            base += v.size + 3
            vals.append(v)
            phs.append(ph(f"a{i}", v))
        res["first"] = vals[0]
        fn_np = np.stack if kind == "stack" else np.concatenate
        fn_pt = pt.stack if kind == "stack" else pt.concatenate
        both(lambda: fn_np(vals, axis=case["axis"]),
             lambda: fn_pt(phs, axis=case["axis"]))
    elif kind == "einsum":
        vals = []
        phs = []
        rng = common.rng_for(case["vseed"], "einsum-vals")
        for i, s in enumerate(case["shapes"]):
            v = np.array([rng.randrange(-3, 4) for _ in range(int(np.prod(s, dtype=int)))],
                         dtype=case["dtypes"][i]).reshape(s)
            vals.append(v)
            phs.append(ph(f"a{i}", v))
        # NumPy einsum does not broadcast unit axes against longer ones for the
        # same letter, pytato documents that it does: broadcast by hand.
        spec = case["spec"]
        ins = spec.split("->")[0].split(",")
        lens: dict[str, int] = {}
        for sub, v in zip(ins, vals):
            for ch, l in zip(sub.strip(), v.shape):
                if l != 1:
                    lens[ch] = l
                lens.setdefault(ch, 1)
        bvals = [np.broadcast_to(v, tuple(lens[ch] for ch in sub.strip()))
                 for sub, v in zip(ins, vals)]
        res["first"] = None
        both(lambda: np.einsum(spec.replace(" ", ""), *bvals),
             lambda: pt.einsum(spec, *phs))
    elif kind == "csr":
        rng = common.rng_for(case["vseed"], "csr")
        nrows, ncols = case["nrows"], case["ncols"]
        rows = [0]
        cols: list[int] = []
        for _r in range(nrows):
            k = rng.choice([0, 0, 1, 2, min(3, ncols)]) if ncols else 0
            k = min(k, ncols)
            cols.extend(sorted(rng.sample(range(ncols), k)))
            rows.append(len(cols))
        vals_ = np.array([rng.randrange(-4, 5) or 1 for _ in cols], dtype=case["vdtype"])
        cols_ = np.array(cols, dtype=case["idtype"])
        rows_ = np.array(rows, dtype=case["idtype"])
        x = _ids(tuple([ncols, *case["trail"]])).astype(case["xdtype"])
        dense = np.zeros((nrows, ncols), dtype=np.result_type(vals_.dtype, x.dtype))
        for r in range(nrows):
            for j in range(rows[r], rows[r + 1]):
                dense[r, cols[j]] += vals_[j]
        res["first"] = None

        def mk() -> Any:
            m = pt.make_csr_matrix((nrows, ncols), ph("ev", vals_), ph("ec", cols_),
                                   ph("rs", rows_))
            return m @ ph("x", x)
        both(lambda: np.tensordot(dense, x, axes=(1, 0)), mk)
    elif kind == "expand_dims":
        a = _ids(tuple(case["shape"]))
        res["first"] = a
        A = ph("a", a)
        ax = case["axis"]
        both(lambda: np.expand_dims(a, tuple(ax) if isinstance(ax, list) else ax),
             lambda: pt.expand_dims(A, tuple(ax) if isinstance(ax, list) else ax))
    elif kind == "squeeze":
        a = _ids(tuple(case["shape"]))
        res["first"] = a
        A = ph("a", a)
        ax = case["axis"]
        both(lambda: np.squeeze(a, None if ax is None else tuple(ax)),
             lambda: pt.squeeze(A, None if ax is None else tuple(ax)))
    else:
        raise ValueError(kind)
    return res


def check_case(case: dict[str, Any], col: common.Collector, rng: Any) -> None:
    import pytato as pt
    from pytato.transform.lower_to_index_lambda import to_index_lambda
    from vf.oracle import ilinterp, refeval

    kind = case["kind"]
    b = build_case(case)
    col.histo("kind", kind)
    if b["np_exc"] is not None:
        col.count("numpy_rejected")
        col.case()
        return
    if b["pt_exc"] is not None:
        # NumPy accepts, pytato refuses at construction: allowed when the refusal
        # is a stated restriction; judged by C03/C01's fragment table, not here.
        col.count("pytato_refused:" + type(b["pt_exc"]).__name__)
        col.histo("pytato_refused", f"{kind}:{type(b['pt_exc']).__name__}:"
                  f"{str(b['pt_exc'])[:60]}")
        col.case()
        return
    node = b["node"]
    ref = np.asarray(b["np"])
    if not isinstance(node, pt.Array):
        col.case()
        return
    if isinstance(node, (pt.Placeholder,)):
        # operation was the identity and pytato returned the operand
        col.count("returned_operand")
        if ref.shape != tuple(node.shape) or not np.array_equal(ref, b["env"][node.name]):
            col.violation(f"C02:identity-shortcut-wrong:{kind}",
                          "operation returned its operand but NumPy result differs",
                          {"case": case})
        col.case()
        return
    node = _decorate(node, rng)
    try:
        il = to_index_lambda(node)
    except Exception as e:  # noqa: BLE001
        col.violation(f"C02:lowering-raises:{kind}:{type(e).__name__}",
                      f"to_index_lambda raised {type(e).__name__}: {str(e)[:200]}",
                      {"case": case})
        col.case()
        return
    # -- metadata oracle
    col.count("mon.metadata_oracle")
    try:
        sh = tuple(int(s) for s in il.shape)
    except Exception:  # noqa: BLE001
        sh = None
    meta_bad = []
    if sh != tuple(int(s) for s in node.shape):
        meta_bad.append(("shape", sh, tuple(node.shape)))
    if il.dtype != node.dtype:
        meta_bad.append(("dtype", str(il.dtype), str(node.dtype)))
    if il.axes != node.axes:
        meta_bad.append(("axes", repr(il.axes), repr(node.axes)))
    if il.tags != node.tags:
        meta_bad.append(("tags", repr(il.tags), repr(node.tags)))
    if tuple(node.shape) != ref.shape:
        meta_bad.append(("node.shape-vs-numpy", tuple(node.shape), ref.shape))
    if node.dtype != ref.dtype:
        meta_bad.append(("node.dtype-vs-numpy", str(node.dtype), str(ref.dtype)))
    for what, got, want in meta_bad:
        col.violation(f"C02:metadata:{kind}:{what}",
                      f"lowered {what} {got!r} != expected {want!r}",
                      {"case": case, "field": what, "got": got, "want": want})
    if sh is None or sh != ref.shape:
        col.case()
        return
    # -- value oracle
    try:
        rev = refeval.RefEval(b["env"])
        bind = {k: np.asarray(rev(v)) for k, v in il.bindings.items()}
        val, ev = ilinterp.eval_index_lambda(il, bind, sh)
    except ilinterp.UnsupportedExpr as e:
        col.violation(f"C02:uninterpretable:{kind}",
                      f"lowered expression outside documented IndexLambda forms: {e}",
                      {"case": case, "expr": str(il.expr)})
        col.case()
        return
    col.count("mon.value_oracle")
    col.count("mon.subscripts", ev.n_subscripts)
    col.count("mon.masked_subscripts", ev.n_masked_subscripts)
    hard_oob = [o for o in ev.oob if not o.get("data_dependent")]
    if hard_oob:
        col.violation(f"C02:oob-subscript:{kind}",
                      "lowered index lambda reads outside an operand at an index where "
                      "the expression is evaluated",
                      {"case": case, "oob": hard_oob[:3], "expr": str(il.expr)})
    elif ev.oob:
        col.count("data_dependent_oob_events", len(ev.oob))
    same = (val.shape == ref.shape and
            (np.array_equal(val, ref, equal_nan=True) if val.dtype.kind in "fc"
             else np.array_equal(val, ref)))
    if not same:
        col.violation(f"C02:value:{kind}",
                      "pointwise value of lowered index lambda differs from NumPy",
                      {"case": case, "expr": str(il.expr), "got": val, "want": ref})
    first = b["first"]
    nontrivial = ref.size >= 2 and not (
        first is not None and first.shape == ref.shape and np.array_equal(first, ref))
    col.case(common.stable_hash(case), nontrivial,
             {"case": case, "expr": str(il.expr)[:160], "result_shape": list(ref.shape)})


# ---------------------------------------------------------------------------
# block enumerators


def _enc_slice(s: Any) -> list[Any]:
    return ["s", s.start, s.stop, s.step]


def gen_block(block: dict[str, Any]) -> Any:
    kind = block["kind"]
    if kind == "slice1d":
        for stop in STARTSTOP:
            for step in STEPS:
                yield {"kind": "index", "shape": [block["alen"]],
                       "index": [["s", block["start"], stop, step]]}
    elif kind == "int1d":
        n = block["alen"]
        for k in range(-n - 1, n + 1):
            yield {"kind": "index", "shape": [n], "index": [["i", k]]}
            yield {"kind": "index", "shape": [2, n], "index": [["s", None, None, None],
                                                                ["i", k]]}
            yield {"kind": "index", "shape": [n, 3], "index": [["i", k],
                                                                ["s", None, None, -1]]}
    elif kind == "reshape":
        for old, new in block["pairs"]:
            for order in ("C", "F", "c", "f"):
                yield {"kind": "reshape", "old": list(old), "new": list(new),
                       "order": order}
    elif kind == "roll":
        for s in block["shapes"]:
            for ax in range(len(s)):
                n = s[ax]
                for sh in range(-2 * n - 1, 2 * n + 2):
                    yield {"kind": "roll", "shape": list(s), "axis": ax, "shift": sh}
    elif kind == "transpose":
        for s in block["shapes"]:
            for perm in itertools.permutations(range(len(s))):
                yield {"kind": "transpose", "shape": list(s), "perm": list(perm)}
    elif kind == "join":
        rng = common.rng_for(block["seed"], "join")
        dts = ["int64", "int32", "float64", "float32"]
        for s in block["shapes"]:
            for axis in range(len(s) + 1):
                for narr in (1, 2, 3):
                    yield {"kind": "stack", "shapes": [list(s)] * narr, "axis": axis,
                           "dtypes": [rng.choice(dts) for _ in range(narr)]}
            for axis in range(len(s)):
                for narr in (1, 2, 3):
                    shapes = []
                    for _ in range(narr):
                        t = list(s)
                        t[axis] = rng.choice([0, 1, 2, 3])
                        shapes.append(t)
                    yield {"kind": "concatenate", "shapes": shapes, "axis": axis,
                           "dtypes": [rng.choice(dts) for _ in range(narr)]}
    elif kind == "embedded":
        rng = common.rng_for(block["seed"])
        for _ in range(block["count"]):
            nd = rng.choice([2, 2, 3, 3, 4])
            shape = [rng.randrange(0, 6) for _ in range(nd)]
            idx: list[Any] = []
            nidx = rng.randrange(1, nd + 1)
            used_e = False
            for _j in range(nidx):
                r = rng.random()
                if r < 0.6:
                    idx.append(["s", rng.choice(STARTSTOP), rng.choice(STARTSTOP),
                                rng.choice(STEPS)])
                elif r < 0.9:
                    idx.append(["i", rng.randrange(-6, 6)])
                elif not used_e:
                    idx.append(["e"])
                    used_e = True
                else:
                    idx.append(["s", None, None, None])
            yield {"kind": "index", "shape": shape, "index": idx}
    elif kind == "advanced":
        rng = common.rng_for(block["seed"])
        for _ in range(block["count"]):
            nd = rng.choice([1, 2, 2, 3, 3, 4])
            shape = [rng.randrange(1, 6) for _ in range(nd)]
            if rng.random() < 0.1:
                shape[rng.randrange(nd)] = 0
            idx = []
            # choose positions of array indices
            n_arr = rng.choice([1, 1, 2, 2, 3]) if nd > 1 else 1
            arr_pos = sorted(rng.sample(range(nd), min(n_arr, nd)))
            # common broadcast shape for index arrays
            bshape = [rng.randrange(1, 4) for _ in range(rng.choice([0, 1, 1, 2]))]
            for ax in range(nd):
                n = shape[ax]
                if ax in arr_pos:
                    # broadcast-compatible shape: drop leading axes / unit axes
                    sh = list(bshape)
                    k = rng.randrange(0, len(sh) + 1)
                    sh = sh[k:]
                    sh = [1 if rng.random() < 0.3 else x for x in sh]
                    cnt = int(np.prod(sh, dtype=int))
                    if n == 0:
                        sh = [0] if sh else [0]
                        cnt = 0
                    lo = -n if rng.random() < 0.6 else 0
                    dt = rng.choice(["int64", "int32", "int64", "uint8"]) if lo >= 0 \
                        else rng.choice(["int64", "int32", "int16"])
                    data = [rng.randrange(lo, n) for _ in range(cnt)] if n else []
                    idx.append(["a", data, dt, sh, rng.choice(["ph", "dw"])])
                else:
                    r = rng.random()
                    if r < 0.45:
                        idx.append(["s", rng.choice(STARTSTOP), rng.choice(STARTSTOP),
                                    rng.choice(STEPS)])
                    elif r < 0.75 and n > 0:
                        idx.append(["i", rng.randrange(-n, n)])
                    else:
                        idx.append(["s", None, None, None])
            # occasionally drop trailing full slices
            while idx and idx[-1] == ["s", None, None, None] and rng.random() < 0.5:
                idx.pop()
            if not idx:
                continue
            yield {"kind": "index", "shape": shape, "index": idx}
    elif kind == "einsum":
        rng = common.rng_for(block["seed"])
        letters = "ijklmn"
        for c in range(block["count"]):
            nops = rng.choice([1, 2, 2, 3])
            nl = rng.randrange(1, 5)
            ls = letters[:nl]
            lens = {ch: rng.choice([1, 2, 2, 3, 4]) for ch in ls}
            if rng.random() < 0.06:
                lens[rng.choice(ls)] = 0
            subs = []
            shapes = []
            for _o in range(nops):
                k = rng.randrange(0, min(4, nl + 1) + 1)
                sub = "".join(rng.choice(ls) for _ in range(k))
                subs.append(sub)
                shapes.append([lens[ch] if rng.random() > 0.15 else 1 for ch in sub])
            used = sorted(set("".join(subs)))
            # make every used letter have its full length at least once (else the
            # effective length is 1, which is fine too)
            out_letters = [ch for ch in used if rng.random() < 0.5]
            rng.shuffle(out_letters)
            spec = ",".join(subs) + "->" + "".join(out_letters)
            if rng.random() < 0.2:
                spec = spec.replace(",", " , ").replace("->", " -> ")
            dts = [rng.choice(["int64", "int32", "float64", "float32", "complex128"])
                   for _ in range(nops)]
            yield {"kind": "einsum", "spec": spec, "shapes": shapes, "dtypes": dts,
                   "vseed": common.sub_seed(block["seed"], c)}
    elif kind == "csr":
        rng = common.rng_for(block["seed"])
        for c in range(block["count"] // 4):
            yield {"kind": "csr", "nrows": rng.randrange(0, 5), "ncols": rng.randrange(1, 5),
                   "trail": [rng.randrange(0, 4) for _ in range(rng.choice([0, 0, 1, 2]))],
                   "vdtype": rng.choice(["float64", "int64", "float32", "complex128"]),
                   "idtype": rng.choice(["int32", "int64"]),
                   "xdtype": rng.choice(["float64", "int64", "float32"]),
                   "vseed": common.sub_seed(block["seed"], c)}
    elif kind == "misc":
        rng = common.rng_for(block["seed"])
        for _ in range(block["count"] // 4):
            nd = rng.randrange(0, 4)
            shape = [rng.choice([1, 1, 2, 3, 0]) for _ in range(nd)]
            if rng.random() < 0.5:
                k = rng.randrange(1, 3)
                tot = nd + k
                ax = rng.sample(range(-tot, tot), k)
                yield {"kind": "expand_dims", "shape": shape,
                       "axis": ax if (k > 1 or rng.random() < 0.5) else ax[0]}
            else:
                ones = [i for i, s in enumerate(shape) if s == 1]
                ax = None if rng.random() < 0.4 or not ones else \
                    rng.sample(ones, rng.randrange(1, len(ones) + 1))
                yield {"kind": "squeeze", "shape": shape, "axis": ax}
    else:
        raise ValueError(kind)


def run_shard(shard: dict[str, Any], col: common.Collector) -> None:
    rng = common.rng_for(0, "c02-decor")
    for block in shard["blocks"]:
        for case in gen_block(block):
            try:
                check_case(case, col, rng)
            except Exception as e:  # noqa: BLE001
                import traceback
                col.violation(f"C02:harness-exception:{case['kind']}:{type(e).__name__}",
                              f"unexpected {type(e).__name__}: {str(e)[:200]}",
                              {"case": case, "tb": traceback.format_exc()[-1500:]})


def replay(witness: dict[str, Any], col: common.Collector) -> None:
    check_case(witness["case"], col, common.rng_for(0, "c02-decor"))
