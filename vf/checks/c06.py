"""C06 -- algebraic einsum rewrites never change the computed value.

For every generated expression (1..n einsums/matmuls over trees of + - * / with arrays and
scalars in either position, powers, math functions, indexing, reshapes, transposes, unit
axes) EVERY distribution policy is enumerated (per einsum: do-not-distribute or distribute
over operand i), applied with apply_distributive_property_to_einsums, and the rewritten
graph is evaluated by the reference evaluator and compared with the value of the original;
likewise rewrite_einsums_with_no_broadcasts.  A sampled policy is also compiled.
"""
from __future__ import annotations

import itertools
from typing import Any

import numpy as np

from vf import common
from vf.gen import proggen
from vf.gen import progspec as ps

LEVEL = "exploration"
RULE = ("eval(apply_distributive_property_to_einsums(e, policy)) == eval(e) for every policy; "
        "eval(rewrite_einsums_with_no_broadcasts(e)) == eval(e)")
ASSUMPTIONS = ["vf.oracle.refeval is the meaning of a graph (guarded by the NumPy shadow)",
               "RuntimeError('Cannot distribute composed einsums') is the documented refusal"]
MIN_MONITOR = {"mon.policies": 1500, "mon.value": 1500, "mon.rewritten": 300,
               "mon.nobroadcast": 200, "mon.nobroadcast_rewritten": 20}
SHARD_TIMEOUT = {"quick": 900, "thorough": 7200}
N_PROGRAMS = {"quick": 3200, "thorough": 32000}
MAX_POLICIES = {"quick": 125, "thorough": 400}
OPTS = {"no_loopy": True, "no_csr": True, "dw_prob": 0.1}


def plan(tier: str, seed: int) -> list[dict[str, Any]]:
    rng = common.rng_for(seed, "c06")
    cases = [{"seed": rng.getrandbits(31), "n_nodes": rng.choice([5, 7, 9, 12, 15]),
              "maxpol": MAX_POLICIES[tier],
              "compile": i % (8 if tier == "thorough" else 20) == 0}
             for i in range(N_PROGRAMS[tier])]
    n = common.NCPU * (1 if tier == "quick" else 4)
    return [{"cases": c, "idx": i} for i, c in enumerate(common.split_even(cases, n))]


def evaluate(g: Any, env: dict[str, Any]) -> dict[str, np.ndarray]:
    from vf.oracle import refeval
    ev = refeval.RefEval(env)
    return {k: np.asarray(ev(g[k].expr if hasattr(g[k], "expr") else g[k])) for k in g}


def operand_sig(b: Any, spec: dict[str, Any], node: Any) -> str:
    """Spec-level description of the array *node* (op + operand kinds)."""
    byobj = {id(a): nid for nid, a in b.nodes.items()}
    nid = byobj.get(id(node))
    inputs = {i["id"] for i in spec["inputs"]}
    if nid is None:
        # hash-consing may have rebuilt the object: match by equality
        for k, a in b.nodes.items():
            try:
                if a == node:
                    nid = k
                    break
            except Exception:  # noqa: BLE001
                continue
    if nid is None:
        return type(node).__name__
    if nid in inputs:
        return "input"
    nd = next(n for n in spec["nodes"] if n["id"] == nid)
    args = []
    for a in nd["args"]:
        args.append("arr" if ps.is_ref(a) else f"{a[0]}")
    return f"{nd['op']}({','.join(args)})"


def apply_policy(g: Any, pol: dict[int, int | None], einsums: list[Any]) -> Any:
    from pytato.transform.einsum_distributive_law import (
        DoDistribute, DoNotDistribute, apply_distributive_property_to_einsums)
    table = {}
    for j, e in enumerate(einsums):
        table[e] = pol.get(j)

    def how(e: Any) -> Any:
        c = table.get(e)
        return DoNotDistribute() if c is None else DoDistribute(c)
    return apply_distributive_property_to_einsums(g, how)


def tol_ok(got: np.ndarray, want: np.ndarray, spread: np.ndarray, scale: float) -> bool:
    from vf.oracle import compare
    if got.shape != want.shape:
        return False
    if want.dtype.kind not in "fc":
        return bool(np.array_equal(got, want))
    eps = float(np.finfo(want.dtype).eps)
    return compare.close_ulps(got, want, 64.0, err=16.0 * spread + 256.0 * eps * scale)


def magnitude(spec: dict[str, Any], vset: int) -> float:
    """Largest absolute finite intermediate value of the shadow run (for a scale-aware
    tolerance under re-association)."""
    try:
        sh = ps.Shadow(spec, vset)
        sh.outputs()
        m = 1.0
        for v in sh.vals.values():
            if isinstance(v, dict):
                continue
            a = np.abs(np.asarray(v, dtype=np.complex128))
            a = a[np.isfinite(a)]
            if a.size:
                m = max(m, float(a.max()))
        return m
    except Exception:  # noqa: BLE001
        return 1.0


def check_case(case: dict[str, Any], col: common.Collector) -> None:
    import pytato as pt
    from vf.oracle import compare, reflect
    spec = case.get("spec")
    if spec is None:
        spec = proggen.generate(case["seed"], "distrib", n_nodes=case["n_nodes"], opts=OPTS)
    if case.get("directed"):
        col.count("mon.directed")
    vset = 0
    ref = spread = None
    try:
        for _ in range(3):
            r_, s_, fragile, _p = ps.reference(spec, vset)
            if not fragile:
                ref, spread = r_, s_
                break
            if any(i["kind"] == "dw" for i in spec["inputs"]):
                break
            vset += 2
    except Exception as e:  # noqa: BLE001
        col.histo("skipped", f"shadow:{type(e).__name__}")
        col.case()
        return
    if ref is None:
        col.count("skipped_fragile")
        col.case()
        return
    try:
        b = ps.PtBuild(spec, vset=vset)
        g = reflect.hashcons(pt.make_dict_of_named_arrays(b.outputs()))
        env = b.env(vset)
        base = evaluate(g, env)
    except Exception as e:  # noqa: BLE001 -- C01/C03's business
        col.histo("skipped", f"build:{type(e).__name__}")
        col.case()
        return
    for k, v in base.items():
        with np.errstate(all="ignore"):
            w = ref[k].astype(v.dtype) if k in ref else None
        if w is None or v.shape != w.shape or \
                not compare.close_ulps(v, w, 16.0, err=8.0 * spread[k]):
            col.histo("skipped", "refeval-disagrees-with-shadow")
            col.case()
            return
    if reflect.conflated_groups(g):
        # e.g. x + 0.0 next to x + -0.0: one node for pytato (C04 known finding), so checking
        # mappers refuse the graph
        col.histo("skipped", "pytato-equal-distinct-nodes")
        col.case()
        return
    scale = magnitude(spec, vset)
    einsums = [n for n in reflect.walk(g) if isinstance(n, pt.Einsum)]
    col.histo("n_einsums", str(min(len(einsums), 5)))
    wit0 = {"spec": spec, "vset": vset}

    def judge(res: Any, what: str, keyfn: Any, wit: dict[str, Any]) -> bool:
        """True if fine."""
        if set(res.keys()) != set(g.keys()):
            col.violation(f"C06:output-names:{what}", f"{sorted(res.keys())}", wit)
            return False
        try:
            got = evaluate(res, env)
        except Exception as e:  # noqa: BLE001
            col.violation(f"C06:result-not-evaluable:{what}:{type(e).__name__}:{keyfn()}",
                          f"rewritten graph cannot be evaluated: {str(e)[:160]}", wit)
            return False
        col.count("mon.value", len(got))
        for k, want in base.items():
            gv = got[k]
            if gv.dtype != want.dtype:
                col.histo("dtype_changed", f"{what}:{want.dtype}->{gv.dtype}")
                with np.errstate(all="ignore"):
                    gv = gv.astype(want.dtype)
            if not tol_ok(gv, want, spread[k], scale):
                col.violation(f"C06:value:{what}:{keyfn()}",
                              f"output {k} after {what} differs from the original's value: "
                              f"{compare.describe_diff(gv, want)}", wit)
                return False
        return True

    # ---- no-broadcast rewrite
    try:
        nb = pt.rewrite_einsums_with_no_broadcasts(g)
        col.count("mon.nobroadcast")
        if nb is not g:
            col.count("mon.nobroadcast_rewritten")
        judge(nb, "no-broadcasts", lambda: "einsum", {**wit0, "rewrite": "no-broadcasts"})
        for n in reflect.walk(nb):
            if isinstance(n, pt.Einsum):
                # afterwards no operand axis of length 1 may meet a longer axis of the same
                # index
                lens: dict[Any, set[Any]] = {}
                for acc, a in zip(n.access_descriptors, n.args):
                    for d, l in zip(acc, a.shape):
                        lens.setdefault(d, set()).add(l)
                if any(len(v) > 1 for v in lens.values()):
                    col.violation("C06:no-broadcasts:broadcast-remains",
                                  "an einsum of the rewritten graph still broadcasts a unit "
                                  "axis", {**wit0, "rewrite": "no-broadcasts"})
                    break
    except Exception as e:  # noqa: BLE001
        col.violation(f"C06:raises:no-broadcasts:{type(e).__name__}@{common.exc_site(e)}",
                      f"rewrite_einsums_with_no_broadcasts raised: {str(e)[:160]}",
                      {**wit0, "rewrite": "no-broadcasts"})
    # ---- distribution policies
    if not einsums:
        col.case(common.stable_hash(spec), False, {"ops": ps.node_kinds(spec), "einsums": 0})
        return
    choices = [[None, *range(len(e.args))] for e in einsums]
    total = 1
    for c in choices:
        total *= len(c)
    pols: list[tuple[Any, ...]]
    if case.get("policy") is not None:
        pols = [tuple(case["policy"])]
    elif total <= case.get("maxpol", 125):
        pols = list(itertools.product(*choices))
        col.count("exhaustive_policy_sets")
    else:
        rng = common.rng_for(spec["vseed"], "pol")
        # all single-einsum policies + random mixtures
        pols = [tuple(None for _ in einsums)]
        for j, c in enumerate(choices):
            for x in c[1:]:
                p = [None] * len(einsums)
                p[j] = x
                pols.append(tuple(p))
        while len(pols) < case.get("maxpol", 125):
            pols.append(tuple(rng.choice(c) for c in choices))
        col.count("sampled_policy_sets")
    n_rewritten = 0
    compiled = False
    for pol in pols:
        pd = {j: c for j, c in enumerate(pol)}
        wit = {**wit0, "policy": list(pol)}
        col.count("mon.policies")

        def keyfn() -> str:
            # mechanism: which operation sits on top of the distributed operand(s)
            sigs = sorted({operand_sig(b, spec, einsums[j].args[c])
                           for j, c in pd.items() if c is not None})
            return "+".join(sigs)[:120] or "none"
        try:
            res = apply_policy(g, pd, einsums)
        except RuntimeError as e:
            if "Cannot distribute composed einsums" in str(e):
                col.histo("refusals", "composed-einsums")
                continue
            col.violation(f"C06:raises:distribute:RuntimeError@{common.exc_site(e)}:{keyfn()}",
                          str(e)[:160], wit)
            continue
        except Exception as e:  # noqa: BLE001
            col.violation(f"C06:raises:distribute:{type(e).__name__}@{common.exc_site(e)}:"
                          f"{keyfn() if any(c is not None for c in pol) else 'none'}",
                          f"apply_distributive_property_to_einsums raised "
                          f"{type(e).__name__}: {str(e)[:160]}", wit)
            continue
        if res is not g and res != g:
            n_rewritten += 1
            col.count("mon.rewritten")
        ok = judge(res, "distribute", keyfn, wit)
        if ok and case.get("compile") and not compiled and res is not g \
                and any(c is not None for c in pol):
            compiled = True
            try:
                from vf.exec import ctarget
                bp = ctarget.generate(pt.transform.deduplicate(res))
                rr = ctarget.run(ctarget.compile_program(bp), bp, env)
                col.count("mon.compiled")
                for k, want in base.items():
                    gv = rr.outputs[k]
                    with np.errstate(all="ignore"):
                        w2 = want.astype(gv.dtype)
                    if not tol_ok(gv, w2, spread[k], scale):
                        bp0 = ctarget.generate(pt.transform.deduplicate(g))
                        r0 = ctarget.run(ctarget.compile_program(bp0), bp0, env)
                        if tol_ok(r0.outputs[k], w2, spread[k], scale):
                            col.violation(f"C06:compiled-value:distribute:{keyfn()}",
                                          "compiled rewritten graph is wrong while the compiled "
                                          "original is right", wit)
                        else:
                            col.histo("compiled_baseline_wrong", "distribute")
                        break
            except Exception as e:  # noqa: BLE001
                col.histo("compile_failed", type(e).__name__)
    col.case(common.stable_hash(spec), n_rewritten > 0,
             {"ops": ps.node_kinds(spec), "einsums": len(einsums), "policies": len(pols),
              "rewritten": n_rewritten})


def directed() -> list[dict[str, Any]]:
    """Hand-written expressions aimed at the clause 'an operation is pushed through an
    einsum only if that is an algebraic identity': non-linear or non-commuting operations
    directly under a distributed operand, every policy enumerated."""
    def ph(i: int, shape: list[int], dt: str, pool: str = "dyadic") -> dict[str, Any]:
        return {"id": i, "kind": "ph", "shape": shape, "dtype": dt, "pool": pool,
                "name": f"x{i}"}
    out = []
    leaf_ops: list[tuple[str, list[Any], str]] = []
    for dt in ("float64", "float32", "int32", "bool", "complex128"):
        k = {"float64": "float", "float32": "float", "int32": "int", "bool": "int",
             "complex128": "complex"}[dt]
        sc = {"float": ps.enc_scalar(2.5), "int": ps.enc_scalar(3),
              "complex": ps.enc_scalar(complex(0.5, 1.0))}[k]
        npsc = ps.enc_scalar(np.float64(2.5))
        for op in ("add", "sub", "mul", "truediv", "pow"):
            if dt == "bool" and op in ("sub", "truediv", "pow"):
                continue
            leaf_ops.append((op, [1, sc], dt))
            leaf_ops.append((op, [sc, 1], dt))
            if dt in ("float32", "int32") and op in ("mul", "add", "truediv"):
                leaf_ops.append((op, [1, npsc], dt))
                leaf_ops.append((op, [npsc, 1], dt))
            leaf_ops.append((op, [1, 2], dt))          # array (op) array, same shape
    for j, (op, args, dt) in enumerate(leaf_ops):
        pool = "nonzero" if op in ("truediv", "pow") else "dyadic"
        spec = {"inputs": [ph(0, [3, 4], "float64"), ph(1, [4, 2], dt, pool),
                           ph(2, [4, 2], dt, pool)],
                "nodes": [{"id": 3, "op": op, "args": args, "params": {}},
                          {"id": 4, "op": "einsum", "args": [0, 3],
                           "params": {"spec": "ij,jk->ik"}},
                          {"id": 5, "op": "einsum", "args": [3],
                           "params": {"spec": "jk->k"}}],
                "outputs": {"out0": 4, "out1": 5}, "vseed": 1000 + j, "profile": "distrib"}
        out.append({"spec": spec, "maxpol": 400, "compile": False, "directed": True})
    # array (+|-) array with DIFFERENT dtypes under an einsum whose other operand is narrow:
    # distributing must not evaluate a summand's product in the narrower type
    drng = np.random.default_rng(7)

    def data(shape: list[int], dt: str) -> list[Any]:
        n = int(np.prod(shape))
        if np.dtype(dt).kind in "iu":
            return [int(v) for v in drng.integers(60, 120, size=n)]
        return [float(v) for v in drng.uniform(0.1, 1.7, size=n)]
    mixed = [("int8", "int8", "int64"), ("int8", "int64", "int8"), ("int16", "int16", "int32"),
             ("float32", "float32", "float64"), ("float32", "float64", "float32"),
             ("int32", "int32", "float64"), ("float32", "int32", "float64"),
             ("complex64", "complex64", "complex128"), ("float32", "float32", "complex128"),
             ("uint8", "uint8", "int64")]
    for j, (d_a, d_1, d_2) in enumerate(mixed):
        for op in ("add", "sub"):
            ins = []
            for i, (shape, dt) in enumerate([([3, 4], d_a), ([4, 2], d_1), ([4, 2], d_2)]):
                inp = ph(i, shape, dt)
                if np.dtype(dt).kind == "c":
                    inp["pool"] = "generic"
                else:
                    inp["data"] = data(shape, dt)
                ins.append(inp)
            spec = {"inputs": ins,
                    "nodes": [{"id": 3, "op": op, "args": [1, 2], "params": {}},
                              {"id": 4, "op": "einsum", "args": [0, 3],
                               "params": {"spec": "ij,jk->ik"}}],
                    "outputs": {"out0": 4}, "vseed": 2000 + j, "profile": "distrib"}
            out.append({"spec": spec, "maxpol": 400, "compile": False, "directed": True})
    return out


def run_shard(shard: dict[str, Any], col: common.Collector) -> None:
    cases = list(shard["cases"])
    if shard.get("idx", 0) == 0:
        cases = directed() + cases
    for case in cases:
        try:
            with common.time_limit(300):
                check_case(case, col)
        except common.Timeout:
            col.count("case_timeouts")
        except Exception as e:  # noqa: BLE001
            import traceback
            col.violation(f"C06:harness-exception:{type(e).__name__}@"
                          f"{common.exc_site(e, ('vf',))}",
                          f"unexpected {type(e).__name__}: {str(e)[:200]}",
                          {"case": case, "tb": traceback.format_exc()[-1500:]})


def replay(witness: dict[str, Any], col: common.Collector) -> None:
    check_case({"spec": witness["spec"], "policy": witness.get("policy"), "maxpol": 400,
                "compile": True}, col)
