"""C05 -- graph transformations preserve every output and never mutate their input.

Each generated program is built (with random pre-tags on arrays/axes/reductions, natural
and injected duplicates, zeros_like/ones_like references, several outputs, wrapped data),
then every transformation -- singly and in random pipelines of length <= 4 -- is applied.
Monitors per application:

  names     output names unchanged
  decl      per-output shape and dtype unchanged
  value     reference evaluation of T(g) == reference evaluation of g (bitwise for the
            copy-like transformations, shadow tolerance for lowering); sampled: compiled C
  frozen    structural fingerprint of the INPUT graph and the bytes of every wrapped array
            identical before/after (half of the cases wrap read-only arrays)
  idem      T(T(g)) == T(g) for deduplicate / eliminate_dead_code / materialize_with_mpms
  tagsonly  materialize_with_mpms / unify_axes_tags change nothing but tags
"""
from __future__ import annotations

from typing import Any

import numpy as np

from vf import common
from vf.gen import proggen
from vf.gen import progspec as ps

LEVEL = "exploration"
RULE = ("for every transformation T and pipeline: names(T g)=names(g); shape/dtype equal; "
        "eval(T g)=eval(g); fingerprint(g) and wrapped bytes unchanged; T(T g)=T g for "
        "dedup/DCE/MPMS; strip_tags(T g)=strip_tags(g) for tag-adding T")
ASSUMPTIONS = ["vf.oracle.refeval is the meaning of a graph (kept honest: its value on the "
               "untransformed graph must agree with the NumPy shadow or the case is skipped)",
               "a cache-collision / created-duplicate ValueError on an input WITH duplicates "
               "is the documented refusal (C13), counted"]
MIN_MONITOR = {"mon.value": 1500, "mon.frozen": 1500, "mon.idempotent": 300,
               "mon.tags_only": 200, "mon.pipelines": 100, "mon.changed": 300}
SHARD_TIMEOUT = {"quick": 900, "thorough": 7200}
N_PROGRAMS = {"quick": 480, "thorough": 12000}
PROFILES = ["mixed", "mixed", "index", "reduce", "einsum", "zero", "elementwise"]
OPTS = {"no_loopy": True, "dw_prob": 0.3}
COPYLIKE = ("copy", "map_and_copy_id", "deduplicate", "deduplicate_data_wrappers",
            "eliminate_dead_code", "materialize_with_mpms", "unify_axes_tags")
IDEMPOTENT = ("deduplicate", "eliminate_dead_code", "materialize_with_mpms")
TAGS_ONLY = ("materialize_with_mpms", "unify_axes_tags")


def plan(tier: str, seed: int) -> list[dict[str, Any]]:
    rng = common.rng_for(seed, "c05")
    cases = [{"seed": rng.getrandbits(31), "profile": PROFILES[i % len(PROFILES)],
              "compile": tier == "thorough" and i % 6 == 0 or (tier == "quick" and i % 16 == 0)}
             for i in range(N_PROGRAMS[tier])]
    n = common.NCPU * (1 if tier == "quick" else 4)
    return [{"cases": c} for c in common.split_even(cases, n)]


def transforms() -> dict[str, Any]:
    import pytato as pt
    from pytato import transform as tr
    from pytato.transform.metadata import unify_axes_tags

    def lower(g: Any) -> Any:
        from pytato.codegen import normalize_outputs, preprocess
        from vf.exec import lptarget
        return preprocess(normalize_outputs(g), lptarget.VLoopyTarget())
    return {
        "copy": lambda g: tr.CopyMapper()(g),
        "map_and_copy_id": lambda g: tr.map_and_copy(g, lambda x: x),
        "deduplicate": tr.deduplicate,
        "deduplicate_data_wrappers": tr.deduplicate_data_wrappers,
        "eliminate_dead_code": pt.eliminate_dead_code,
        "materialize_with_mpms": pt.materialize_with_mpms,
        "unify_axes_tags": unify_axes_tags,
        "lower": lower,
    }


def is_dup_refusal(e: BaseException) -> bool:
    if type(e).__name__ == "NameClashError":
        return True      # two equal placeholder objects are "two instances of one name"
    return isinstance(e, ValueError) and ("cache collision" in str(e)
                                          or "mapper-created duplicate" in str(e))


def evaluate(g: Any, env: dict[str, Any]) -> dict[str, np.ndarray]:
    from vf.oracle import refeval
    ev = refeval.RefEval(env)
    out = {}
    for k in g:
        n = g[k].expr if hasattr(g[k], "expr") else g[k]
        v = np.asarray(ev(n))
        out[k] = v
    return out


def decl(g: Any) -> dict[str, tuple[Any, str]]:
    return {k: (tuple(g[k].shape), str(g[k].dtype)) for k in g}


def data_objects(g: Any) -> list[np.ndarray]:
    import pytato as pt
    from vf.oracle import reflect
    return [n.data for n in reflect.walk(g) if isinstance(n, pt.DataWrapper)
            and isinstance(n.data, np.ndarray)]


def strip_impl_stored(g: Any) -> Any:
    import pytato as pt
    from vf.oracle import reflect

    def fn(n: Any, vals: dict[str, Any]) -> Any:
        if "tags" in vals and any(isinstance(t, pt.tags.ImplStored) for t in vals["tags"]):
            vals["tags"] = frozenset(t for t in vals["tags"]
                                     if not isinstance(t, pt.tags.ImplStored))
            return reflect._construct_like(n, vals)
        return None
    return reflect.rebuild(g, fn)


def build(spec: dict[str, Any], vset: int, variant: dict[str, Any]) -> tuple[Any, dict[str, Any]]:
    """-> (DictOfNamedArrays, env)"""
    import pytato as pt
    from vf.checks import c07
    from vf.oracle import reflect
    iv = {k: np.asarray(v) for k, v in ps.input_values(spec, vset).items()}
    if variant.get("readonly"):
        for v in iv.values():
            v.flags.writeable = False
    post = None
    if variant.get("asg"):
        post = c07.make_post(variant["asg"], {})
    b = ps.PtBuild(spec, vset=vset, data_values=iv, post=post)
    g = pt.make_dict_of_named_arrays(b.outputs())
    env = b.env(vset)
    if variant.get("shape") == "hashcons":
        g = reflect.hashcons(g)
    elif variant.get("shape") == "twin":
        g = reflect.hashcons(g)
        nodes = [n for n in reflect.walk(g) if isinstance(n, pt.Array)
                 and not isinstance(n, (pt.NamedArray, pt.DataWrapper))]
        rng = common.rng_for(spec["vseed"], "twin05")
        if nodes:
            v = rng.choice(nodes)
            twin = reflect.clone_node(v)
            used = [False]

            def fn2(n: Any, vals: dict[str, Any]) -> Any:
                if not used[0]:
                    for k, val in vals.items():
                        if val is v:
                            vals[k] = twin
                            used[0] = True
                            return reflect._construct_like(n, vals)
                        if isinstance(val, tuple) and any(x is v for x in val):
                            j = [x is v for x in val].index(True)
                            vals[k] = (*val[:j], twin, *val[j + 1:])
                            used[0] = True
                            return reflect._construct_like(n, vals)
                return None
            g = reflect.rebuild(g, fn2)
    elif variant.get("shape") == "dw_alias":
        # a second wrapper (other tags) over the SAME buffer replaces one use of a wrapper
        from vf.vtags import VTag
        g = reflect.hashcons(g)
        indeg: dict[int, int] = {}
        for _p, _path, c in reflect.all_edges(g):
            indeg[id(c)] = indeg.get(id(c), 0) + 1
        dws = [n for n in reflect.walk(g) if isinstance(n, pt.DataWrapper)
               and indeg.get(id(n), 0) >= 2]
        if dws:
            v = dws[0]
            alias = pt.make_data_wrapper(v.data, tags=frozenset({VTag(31337)}))
            used = [False]

            def fn3(n: Any, vals: dict[str, Any]) -> Any:
                if not used[0]:
                    for k, val in vals.items():
                        if val is v:
                            vals[k] = alias
                            used[0] = True
                            return reflect._construct_like(n, vals)
                        if isinstance(val, tuple) and any(x is v for x in val):
                            j = [x is v for x in val].index(True)
                            vals[k] = (*val[:j], alias, *val[j + 1:])
                            used[0] = True
                            return reflect._construct_like(n, vals)
                        if isinstance(val, dict) or hasattr(val, "items"):
                            for kk, vv in list(val.items()):
                                if vv is v:
                                    nv = dict(val)
                                    nv[kk] = alias
                                    vals[k] = type(val)(nv)
                                    used[0] = True
                                    return reflect._construct_like(n, vals)
                return None
            g = reflect.rebuild(g, fn3)
            if used[0]:
                variant["aliased"] = True
        # ... and a wrapper over a VIEW with the same address, shape and dtype but other
        # strides (every element reads data[0,...]): merging it with the base wrapper
        # changes a value
        big = [n for n in reflect.walk(g) if isinstance(n, pt.DataWrapper)
               and isinstance(n.data, np.ndarray) and n.data.size > 1
               and any(st != 0 for st in n.data.strides)]
        if big:
            v = big[0]
            view = np.lib.stride_tricks.as_strided(v.data, shape=v.data.shape,
                                                   strides=(0,) * v.data.ndim, writeable=False)
            outs = dict(g._data)
            outs["vf_view"] = pt.make_data_wrapper(view) + v
            g = pt.make_dict_of_named_arrays(outs)
            variant["view"] = True
    return g, env


def tsig(names: list[str]) -> str:
    return ">".join(names)


def apply_and_check(names: list[str], g: Any, env: dict[str, Any], base: dict[str, np.ndarray],
                    spread: dict[str, np.ndarray], has_dups: bool, col: common.Collector,
                    wit: dict[str, Any], T: dict[str, Any], do_compile: bool) -> Any:
    """Applies the pipeline *names* to *g* with all monitors; returns the result (or None)."""
    import pytato as pt
    from vf.oracle import compare, reflect
    sig = tsig(names)
    fp0 = reflect.fingerprint(g, with_identity=True, with_neq_tags=True)
    datas = data_objects(g)
    bytes0 = [d.tobytes() for d in datas]
    d0 = decl(g)
    cur = g
    try:
        for nm in names:
            cur = T[nm](cur)
    except Exception as e:  # noqa: BLE001
        if has_dups and is_dup_refusal(e) and names[0] != "deduplicate":
            col.histo("refusals", f"{names[0]}:duplicates")
            return None
        if isinstance(e, ValueError) and "read-only" in str(e):
            col.violation(f"C05:writes-wrapped-data:{sig}",
                          f"{sig} attempted to write a wrapped (read-only) array: {str(e)[:100]}",
                          wit)
            return None
        from pytato.transform.metadata import AxesTagsEquationCollector
        del AxesTagsEquationCollector
        col.violation(f"C05:raises:{sig}:{type(e).__name__}@{common.exc_site(e)}",
                      f"{sig} raised {type(e).__name__}: {str(e)[:160]}", wit)
        return None
    # ---- frozen input
    col.count("mon.frozen")
    if reflect.fingerprint(g, with_identity=True, with_neq_tags=True) != fp0:
        col.violation(f"C05:input-graph-mutated:{sig}",
                      f"the structural fingerprint of the graph passed to {sig} changed", wit)
    for d, b0 in zip(datas, bytes0):
        if d.tobytes() != b0:
            col.violation(f"C05:wrapped-data-written:{sig}",
                          f"{sig} modified the bytes of a wrapped array", wit)
    lowered = names[-1] == "lower"
    res = cur.outputs if lowered else cur
    env2 = dict(env)
    if lowered:
        for k, v in cur.bound_arguments.items():
            env2[k] = np.asarray(v)
    # ---- names / declarations
    if set(res.keys()) != set(g.keys()):
        col.violation(f"C05:output-names:{sig}",
                      f"{sorted(res.keys())} vs {sorted(g.keys())}", wit)
        return None
    d1 = decl(res)
    for k in d0:
        if d0[k] != d1[k]:
            col.violation(f"C05:declared-shape-dtype:{sig}",
                          f"output {k}: {d0[k]} -> {d1[k]}", wit)
    # ---- value
    try:
        got = evaluate(res, env2)
    except Exception as e:  # noqa: BLE001
        col.violation(f"C05:result-not-evaluable:{sig}:{type(e).__name__}",
                      f"the graph returned by {sig} cannot be evaluated: {str(e)[:160]}", wit)
        return cur
    col.count("mon.value", len(got))
    for k, want in base.items():
        gv = got[k]
        if lowered:
            ok = gv.shape == want.shape and gv.dtype == want.dtype and \
                compare.close_ulps(gv, want, 16.0, err=8.0 * spread.get(k, 0.0))
        else:
            ok = gv.dtype == want.dtype and compare.same_exact(gv, want)
        if not ok:
            col.violation(f"C05:value-changed:{sig}",
                          f"output {k} of {sig}(g) differs from g's: "
                          f"{compare.describe_diff(gv, want)}", wit)
            break
    changed = cur is not g
    if changed:
        col.count("mon.changed")
    # ---- idempotence / tags-only (single transformations)
    if len(names) == 1 and names[0] in IDEMPOTENT:
        try:
            again = T[names[0]](cur)
            col.count("mon.idempotent")
            if not (again == cur) or reflect.fingerprint(again) != reflect.fingerprint(cur):
                col.violation(f"C05:not-idempotent:{sig}",
                              f"{sig}({sig}(g)) differs from {sig}(g)", wit)
        except Exception as e:  # noqa: BLE001
            col.violation(f"C05:second-application-raises:{sig}:{type(e).__name__}",
                          str(e)[:160], wit)
    if len(names) == 1 and names[0] in TAGS_ONLY and not has_dups:
        col.count("mon.tags_only")
        a = reflect.fingerprint(cur, with_tags=False, with_axes_tags=False)
        b = reflect.fingerprint(g, with_tags=False, with_axes_tags=False)
        if a != b:
            col.violation(f"C05:changes-more-than-tags:{sig}",
                          f"{sig} changed the graph beyond tags", wit)
        if names[0] == "materialize_with_mpms":
            # ... and only ImplStored is ever added
            if reflect.fingerprint(strip_impl_stored(cur)) != \
                    reflect.fingerprint(strip_impl_stored(g)):
                col.violation("C05:mpms-changes-other-tags",
                              "materialize_with_mpms changed tags other than ImplStored", wit)
    # ---- compiled (sampled)
    if do_compile and not lowered and len(names) == 1:
        from vf.exec import ctarget
        try:
            dag = pt.transform.deduplicate(cur)
            bp = ctarget.generate(dag)
            cp = ctarget.compile_program(bp)
            rr = ctarget.run(cp, bp, env)
            col.count("mon.compiled")
            for k, want in base.items():
                gv = rr.outputs[k]
                with np.errstate(all="ignore"):
                    w2 = want.astype(gv.dtype)
                if gv.shape != w2.shape or not compare.close_ulps(gv, w2, 16.0,
                                                                   err=8.0 * spread.get(k, 0.0)):
                    # C01's business unless the untransformed graph compiles to the right value
                    bp0 = ctarget.generate(pt.transform.deduplicate(g))
                    r0 = ctarget.run(ctarget.compile_program(bp0), bp0, env)
                    if r0.outputs[k].shape == w2.shape and compare.close_ulps(
                            r0.outputs[k], w2, 16.0, err=8.0 * spread.get(k, 0.0)):
                        col.violation(f"C05:compiled-value-changed:{sig}",
                                      f"compiled {sig}(g) output {k} is wrong while compiled g "
                                      f"is right: {compare.describe_diff(gv, w2)}", wit)
                    else:
                        col.histo("compiled_baseline_wrong", sig)
                    break
        except ctarget.CodegenFailure as f:
            col.histo("compile_failed", f"{sig}:{f.stage}")
        except Exception as e:  # noqa: BLE001
            col.histo("compile_failed", f"{sig}:{type(e).__name__}")
    return cur


def check_case(case: dict[str, Any], col: common.Collector) -> None:
    import pytato as pt
    from vf.checks import c07
    from vf.oracle import compare, reflect
    spec = case.get("spec")
    if spec is None:
        spec = proggen.generate(case["seed"], case["profile"], opts=OPTS)
    rng = common.rng_for(spec["vseed"], "c05-var")
    vset = 0
    ref = spread = None
    try:
        for _ in range(3):
            r_, s_, fragile, _p = ps.reference(spec, vset)
            if not fragile:
                ref, spread = r_, s_
                break
            if any(i["kind"] == "dw" for i in spec["inputs"]):
                break
            vset += 2
    except Exception as e:  # noqa: BLE001
        col.histo("skipped", f"shadow:{type(e).__name__}")
        col.case()
        return
    if ref is None:
        col.count("skipped_fragile")
        col.case()
        return
    T = transforms()
    variants = case.get("variants")
    if variants is None:
        asg = c07.random_assignment(spec, rng, 0)
        asg = {k: [t for t in v if t[0] in ("stored", "vtag", "axis", "redn", "inlined", "subst")]
               for k, v in asg.items()}
        asg = {k: v for k, v in asg.items() if v}
        variants = [
            {"shape": "hashcons", "asg": asg, "readonly": True},
            {"shape": "natural", "asg": None, "readonly": False},
            {"shape": "twin", "asg": asg if rng.random() < 0.5 else None, "readonly": True},
        ]
        if any(i["kind"] == "dw" for i in spec["inputs"]):
            variants.append({"shape": "dw_alias", "asg": None, "readonly": True})
    for variant in variants:
        try:
            g, env = build(spec, vset, variant)
        except c07.TagApplyError:
            col.histo("skipped", "tag-refused")
            continue
        except Exception as e:  # noqa: BLE001  -- construction failures are C01/C03's
            col.histo("skipped", f"build:{type(e).__name__}")
            continue
        has_dups = reflect.duplicate_groups(g) > 0 or reflect.conflated_groups(g) > 0
        try:
            base = evaluate(g, env)
        except Exception as e:  # noqa: BLE001
            col.histo("skipped", f"refeval:{type(e).__name__}")
            continue
        # the reference evaluator's reading of g must agree with the NumPy shadow
        okb = True
        for k, v in base.items():
            if k.startswith("vf_"):
                continue            # outputs the harness added: metamorphic oracle only
            with np.errstate(all="ignore"):
                w = ref[k].astype(v.dtype) if k in ref else None
            if w is None or v.shape != w.shape or \
                    not compare.close_ulps(v, w, 16.0, err=8.0 * spread.get(k, 0.0)):
                okb = False
        if not okb:
            col.histo("skipped", "refeval-disagrees-with-shadow")
            continue
        col.count("mon.baselines")
        todo: list[list[str]] = case.get("pipelines") or []
        if not todo:
            todo = [[n] for n in T]
            names = list(T)
            for _ in range(2):
                ln = rng.randint(2, 4)
                p = [rng.choice(names[:-1]) for _ in range(ln)]
                if rng.random() < 0.3:
                    p[-1] = "lower"
                if has_dups and rng.random() < 0.7:
                    p[0] = "deduplicate"
                todo.append(p)
        for names in todo:
            wit = {"spec": spec, "variants": [variant], "pipelines": [names], "vset": vset}
            if len(names) > 1:
                col.count("mon.pipelines")
            res = apply_and_check(names, g, env, base, spread, has_dups, col, wit, T,
                                  bool(case.get("compile")))
            col.case(common.stable_hash([spec, variant, names]),
                     res is not None and res is not g,
                     {"ops": ps.node_kinds(spec), "pipeline": names,
                      "shape": variant["shape"], "duplicates": has_dups})
            col.histo("pipelines", tsig(names) if len(names) == 1 else f"len{len(names)}")
    del pt


def run_shard(shard: dict[str, Any], col: common.Collector) -> None:
    for case in shard["cases"]:
        try:
            with common.time_limit(240):
                check_case(case, col)
        except common.Timeout:
            col.count("case_timeouts")
        except Exception as e:  # noqa: BLE001
            import traceback
            col.violation(f"C05:harness-exception:{type(e).__name__}@"
                          f"{common.exc_site(e, ('vf',))}",
                          f"unexpected {type(e).__name__}: {str(e)[:200]}",
                          {"case": case, "tb": traceback.format_exc()[-1500:]})


def replay(witness: dict[str, Any], col: common.Collector) -> None:
    case = {"spec": witness["spec"], "variants": witness.get("variants"),
            "pipelines": witness.get("pipelines"), "compile": True}
    check_case(case, col)
