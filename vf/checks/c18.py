"""C18 -- persistent hash keys identify a computation faithfully across processes.

Events: hex key from ``PytatoKeyBuilder()(graph)`` in several processes (different hash
seeds), for rebuilt-equal graphs, for pickled-and-restored graphs, and for one-component
mutants (the C04 mutator, plus wrapped data differing in one element / in dtype with
identical bytes / in shape with identical bytes / non-contiguous views).
Oracle: equal keys for equal graphs in every process; pairwise different keys for every
mutant vs the original (a collision is the violation).
"""
from __future__ import annotations

import os
import pickle
import subprocess
import sys
import tempfile
from typing import Any

import numpy as np

from vf import common
from vf.gen import graphs

LEVEL = "exploration"
RULE = ("graph corpus of C04 plus data-wrapper graphs; per graph: key of a rebuilt copy, of the "
        "pickle round trip, keys computed in N child interpreters with distinct PYTHONHASHSEED, "
        "and the key of every one-field mutant (root graph with the mutant substituted) and of "
        "every wrapped-data variant; distinct by (graph, node kind, field) / (graph, process); "
        "non-trivial = the pair differs in exactly one component below the root, or the two "
        "keys were computed in different processes")
ASSUMPTIONS = [
    "creation-traceback tagging at its default (off)",
    "non_equality_tags are the only component the key may ignore",
    "wrapped data with identical contents, shape and dtype must give identical keys "
    "(also for a non-contiguous view vs its contiguous copy)",
]
MIN_MONITOR = {"mon.mutant_key_differs": 300, "mon.crossprocess_keys": 40,
               "mon.data_variants": 20}
SHARD_TIMEOUT = {"quick": 900, "thorough": 7200}
N_GRAPHS = {"quick": 260, "thorough": 2400}
NODES_PER_GRAPH = {"quick": 10, "thorough": 24}
N_PROCS = {"quick": 3, "thorough": 8}


def plan(tier: str, seed: int) -> list[dict[str, Any]]:
    descs = graphs.descriptors(common.sub_seed(seed, "c18") & 0x7FFFFFFF, N_GRAPHS[tier])
    n = common.NCPU * (1 if tier == "quick" else 3)
    return [{"descs": c, "nodes": NODES_PER_GRAPH[tier], "seed": seed, "idx": i,
             "nprocs": N_PROCS[tier]} for i, c in enumerate(common.split_even(descs, n))]


def key_of(g: Any) -> str:
    from pytato.analysis import PytatoKeyBuilder
    return PytatoKeyBuilder()(g)


def data_graph(arr: np.ndarray, tag: int = 0) -> Any:
    import pytato as pt
    # only nodes without a dtype field of their own, so that the wrapped data's dtype
    # reaches the key through the data alone
    d = pt.make_data_wrapper(arr)
    return pt.make_dict_of_named_arrays({"o": d, "p": d.T if arr.ndim > 1 else d})


def data_variants(rng: Any) -> list[tuple[str, np.ndarray, np.ndarray, bool]]:
    """[(label, a, b, keys_must_be_equal)]"""
    out = []
    n = rng.randrange(3, 7)
    base = (np.arange(n * 2, dtype=np.int64) + rng.randrange(100)).reshape(n, 2)
    b = base.copy()
    b[rng.randrange(n), rng.randrange(2)] += 1
    out.append(("one-element", base, b, False))
    out.append(("dtype-identical-bytes", base, base.view(np.float64), False))
    out.append(("dtype-identical-bytes:int64-uint64", base, base.view(np.uint64), False))
    out.append(("shape-identical-bytes", base, base.reshape(2, n), False))
    out.append(("shape-identical-bytes:flat", base, base.reshape(-1), False))
    big = np.arange(n * 4, dtype=np.float64).reshape(n, 4) + rng.randrange(50)
    view = big[:, ::2]
    out.append(("noncontiguous-view-vs-copy", view, view.copy(), True))
    out.append(("equal-separate-buffers", base, base.copy(), True))
    f32 = base.astype(np.float32)
    out.append(("dtype-f32-vs-i32-same-values", f32, base.astype(np.int32), False))
    out.append(("fortran-order-same-content", np.asfortranarray(big), big.copy(), True))
    # size-0 data: no bytes at all, dtype and shape are the whole content
    out.append(("empty:dtype", np.zeros((0, n), np.float32), np.zeros((0, n), np.float64), False))
    out.append(("empty:dtype-int-vs-float", np.zeros((0,), np.int64), np.zeros((0,), np.float64),
                False))
    out.append(("empty:shape", np.zeros((0, n), np.float64), np.zeros((n, 0), np.float64),
                False))
    out.append(("empty:shape-rank", np.zeros((0,), np.float64), np.zeros((0, 0), np.float64),
                False))
    out.append(("empty:equal", np.zeros((0, n), np.float64), np.empty((0, n), np.float64), True))
    # 0-d data
    out.append(("zero-dim:value", np.array(1.5), np.array(2.5), False))
    out.append(("zero-dim:dtype", np.array(1.0, np.float32), np.array(1.0, np.float64), False))
    # ... the identical-bytes variants again for 0-d and one-element data
    z32 = np.array(1.0, np.float32)
    out.append(("zero-dim:dtype-identical-bytes", z32, z32.view(np.int32), False))
    zi = np.array(-1 - rng.randrange(5), np.int64)
    out.append(("zero-dim:dtype-identical-bytes:int64-uint64", zi, zi.view(np.uint64), False))
    out.append(("zero-dim:dtype-identical-bytes:f8-i8", np.array(2.5), np.array(2.5).view(np.int64),
                False))
    out.append(("zero-dim:shape-identical-bytes", np.array(1.5), np.array([1.5]), False))
    out.append(("one-element:shape-identical-bytes", np.array([1.5]), np.array([[1.5]]), False))
    o32 = np.array([3.0], np.float32)
    out.append(("one-element:dtype-identical-bytes", o32, o32.view(np.int32), False))
    out.append(("zero-dim:equal", np.array(1.5), np.array(1.5), True))
    return out


def check_graph(desc: dict[str, Any], col: common.Collector, nodes_per_graph: int) -> Any:
    from vf.oracle import mutate, reflect
    g = graphs.build(desc)
    wit0 = {"desc": desc}
    try:
        k0 = key_of(g)
    except Exception as e:  # noqa: BLE001
        col.violation(f"C18:key-builder-raises:{type(e).__name__}@{common.exc_site(e)}",
                      f"PytatoKeyBuilder raised {type(e).__name__}: {str(e)[:140]}", wit0)
        return None
    col.count("mon.keys_computed")
    # rebuilt copy
    g2 = graphs.build(desc)
    if key_of(g2) != k0:
        col.violation("C18:rebuilt-copy-key-differs", "an independently rebuilt equal graph has "
                      "a different key", wit0)
    # pickle round trip
    try:
        up = pickle.loads(pickle.dumps(g))
        col.count("mon.pickle_keys")
        if key_of(up) != k0:
            col.violation("C18:unpickled-key-differs", "pickle round trip changes the key", wit0)
    except Exception as e:  # noqa: BLE001
        col.histo("pickle_failed", type(e).__name__)
    # twice in one process / second builder instance
    if key_of(g) != k0:
        col.violation("C18:key-not-repeatable", "computing the key twice gives two keys", wit0)
    # history: derive a node from one whose key (and hash) has ALREADY been computed -- the
    # derived node must not inherit anything cached on the original
    import pytato as pt
    from vf.vtags import VTag
    hrng = common.rng_for(desc["seed"], "c18-history")
    arrs = [n for n in reflect.walk(g) if isinstance(n, pt.Array)
            and not isinstance(n, pt.NamedArray)]
    for n in hrng.sample(arrs, min(3, len(arrs))):
        try:
            kn = key_of(n)
            hash(n)
            col.count("mon.history_oracle")
            fresh = reflect.clone_node(n).tagged(VTag(4242))     # never keyed before tagging
            t = n.tagged(VTag(4242))
            kt, kf = key_of(t), key_of(fresh)
            wit = {**wit0, "node_kind": type(n).__name__}
            if kt == kn:
                col.violation("C18:key-collision:tag-added-after-keying",
                              f"a {type(n).__name__} tagged AFTER its key was computed has the "
                              "key of the untagged node", wit)
            elif kt != kf:
                col.violation("C18:key-depends-on-history",
                              "tagging after keying and keying after tagging give different "
                              "keys for equal nodes", wit)
            if t != fresh or hash(t) != hash(fresh):
                col.violation("C18:hash-depends-on-history",
                              "equal tagged nodes hash / compare differently depending on "
                              "whether the untagged node had been hashed", wit)
            u = t.without_tags(VTag(4242))
            if key_of(u) != kn:
                col.violation("C18:key-depends-on-history",
                              "removing the tag again does not restore the key", wit)
        except Exception as e:  # noqa: BLE001
            col.histo("history_oracle_unavailable", type(e).__name__)
    # mutants
    rng = common.rng_for(desc["seed"], "c18-nodes")
    nodes = reflect.walk(g)
    bykind: dict[str, list[Any]] = {}
    for n in nodes:
        bykind.setdefault(type(n).__name__, []).append(n)
    chosen: list[Any] = []
    kinds = sorted(bykind)
    rng.shuffle(kinds)
    while len(chosen) < nodes_per_graph and kinds:
        for k in list(kinds):
            if not bykind[k]:
                kinds.remove(k)
                continue
            chosen.append(bykind[k].pop(rng.randrange(len(bykind[k]))))
            if len(chosen) >= nodes_per_graph:
                break
    for node in chosen:
        kind = type(node).__name__
        for field, mutant in mutate.field_mutants(node):
            if field.split(".")[-1] == "non_equality_tags":
                continue
            if kind == "NamedCallResult" and field in ("tags", "axes"):
                continue
            if node is g:
                g_m = mutant
            else:
                try:
                    g_m = mutate.substitute(g, node, mutant)
                except Exception:  # noqa: BLE001
                    col.count("substitution_not_constructible")
                    continue
            if g_m is g:
                continue
            try:
                km = key_of(g_m)
            except Exception as e:  # noqa: BLE001
                col.histo("mutant_key_raises", f"{kind}.{field}:{type(e).__name__}")
                continue
            col.count("mon.mutant_key_differs")
            col.histo("kind_field", f"{kind}.{field}")
            if km == k0:
                col.violation(f"C18:key-collision:{kind}.{field}",
                              f"graphs differing only in {kind}.{field} have the same "
                              "persistent key", {**wit0, "node_kind": kind, "field": field})
            col.case(common.stable_hash([desc, kind, field, id(node) % 9973]), node is not g,
                     {"graph": desc, "node_kind": kind, "field": field})
    return k0


def check_data(seed: int, col: common.Collector) -> None:
    rng = common.rng_for(seed, "c18-data")
    for label, a, b, must_equal in data_variants(rng):
        col.count("mon.data_variants")
        try:
            ka, kb = key_of(data_graph(a)), key_of(data_graph(b))
        except Exception as e:  # noqa: BLE001
            col.violation(f"C18:key-builder-raises:data:{label}:{type(e).__name__}",
                          f"{type(e).__name__}: {str(e)[:140]}", {"label": label})
            continue
        if must_equal and ka != kb:
            col.violation(f"C18:equal-data-different-key:{label}",
                          "wrapped data with identical contents, shape and dtype gives two "
                          "keys", {"label": label, "a": a, "b": b})
        if not must_equal and ka == kb:
            col.violation(f"C18:key-collision:wrapped-data:{label.split(':')[0]}",
                          f"wrapped data differing in {label} gives the same persistent key",
                          {"label": label, "a": a, "b": b})
        col.case(common.stable_hash(["data", label, seed]), True,
                 {"data_variant": label, "must_equal": must_equal,
                  "a": {"dtype": str(a.dtype), "shape": list(a.shape)},
                  "b": {"dtype": str(b.dtype), "shape": list(b.shape)}})


def run_shard(shard: dict[str, Any], col: common.Collector) -> None:
    keys: dict[int, str] = {}
    for j, desc in enumerate(shard["descs"]):
        try:
            with common.time_limit(120):
                k = check_graph(desc, col, shard["nodes"])
            if k is not None:
                keys[j] = k
        except common.Timeout:
            col.count("graph_timeouts")
        except Exception as e:  # noqa: BLE001
            import traceback
            col.violation(f"C18:harness-exception:{type(e).__name__}@"
                          f"{common.exc_site(e, ('vf',))}",
                          f"unexpected {type(e).__name__}: {str(e)[:200]}",
                          {"desc": desc, "tb": traceback.format_exc()[-1500:]})
    for r in range(3):
        check_data(common.sub_seed(shard["seed"], "data", shard["idx"], r), col)
    # other processes, other hash seeds
    if not keys:
        return
    with tempfile.TemporaryDirectory(prefix="vf-c18-") as td:
        inp = os.path.join(td, "in.pkl")
        descs = [shard["descs"][j] for j in sorted(keys)]
        blobs = []
        for d in descs:
            try:
                blobs.append(pickle.dumps(graphs.build(d)))
            except Exception:  # noqa: BLE001
                blobs.append(None)
        with open(inp, "wb") as f:
            pickle.dump({"descs": descs, "blobs": blobs}, f)
        procs = []
        for pidx in range(shard["nprocs"]):
            outp = os.path.join(td, f"out{pidx}.pkl")
            env = dict(os.environ, PYTHONHASHSEED=str(101 + pidx * 17 + shard["idx"]),
                       PYTHONPATH=str(common.VERIF_ROOT))
            procs.append((outp, subprocess.Popen(
                [common.PYTHON, "-m", "vf.checks.c18", "--child", inp, outp], env=env,
                cwd=str(common.VERIF_ROOT), stdout=subprocess.DEVNULL, stderr=subprocess.PIPE)))
        for outp, p in procs:
            try:
                _o, err = p.communicate(timeout=900)
            except subprocess.TimeoutExpired:
                p.kill()
                col.inconc("cross-process key child timed out")
                continue
            if p.returncode != 0 or not os.path.exists(outp):
                col.inconc(f"cross-process key child failed: {err.decode()[-200:]}")
                continue
            with open(outp, "rb") as f:
                res = pickle.load(f)
            for d, j, rr in zip(descs, sorted(keys), res):
                col.count("mon.crossprocess_keys")
                if "error" in rr:
                    col.violation(f"C18:key-builder-raises:child:{rr['error'][:40]}",
                                  rr["error"][:200], {"desc": d})
                    continue
                try:
                    here_tu = tu_keys(graphs.build(d))
                except Exception:  # noqa: BLE001
                    here_tu = []
                if (rr["rebuilt"] != keys[j] or (rr["unpickled"] is not None
                                                  and rr["unpickled"] != keys[j])) \
                        and rr.get("tu_keys") != here_tu:
                    # loopy's key of the TranslationUnit itself depends on the hash seed
                    col.histo("trusted_base_disagreements",
                              "loopy:TranslationUnit-key-depends-on-hash-seed")
                    continue
                if rr["rebuilt"] != keys[j]:
                    col.violation("C18:key-differs-between-processes", "the same graph built in "
                                  f"another interpreter (PYTHONHASHSEED={rr['hashseed']}) has a "
                                  "different key", {"desc": d})
                if rr["unpickled"] is not None and rr["unpickled"] != keys[j]:
                    col.violation("C18:unpickled-key-differs:other-process", "graph pickled here "
                                  "and restored in another interpreter has a different key",
                                  {"desc": d})
                col.case(common.stable_hash(["xproc", d, rr["hashseed"]]), True,
                         {"graph": d, "hashseed": rr["hashseed"], "key": keys[j][:16]})


def coverage_extra(tier: str, counters: dict[str, int], hist: dict[str, dict[str, int]]
                   ) -> dict[str, Any]:
    return {"distinct_kind_field_pairs": len(hist.get("kind_field", {}))}


def replay(witness: dict[str, Any], col: common.Collector) -> None:
    if "desc" in witness:
        check_graph(witness["desc"], col, 60)
    else:
        for r in range(3):
            check_data(r, col)


def tu_keys(g: Any) -> list[str]:
    """Keys loopy's own key builder gives the translation units of the graph's loopy calls
    (trusted base: if THESE differ between processes, the graph's key must differ too)."""
    from vf.oracle import reflect
    out = []
    for n in reflect.walk(g):
        if type(n).__name__ == "LoopyCall":
            try:
                out.append(key_of(n.translation_unit))
            except Exception:  # noqa: BLE001
                out.append("?")
    return sorted(out)


def _child(inp: str, outp: str) -> None:
    common.repo_setup()
    with open(inp, "rb") as f:
        data = pickle.load(f)
    out: list[Any] = []
    for d, blob in zip(data["descs"], data["blobs"]):
        try:
            g = graphs.build(d)
            rb = key_of(g)
            up = key_of(pickle.loads(blob)) if blob is not None else None
            out.append({"rebuilt": rb, "unpickled": up, "tu_keys": tu_keys(g),
                        "hashseed": os.environ.get("PYTHONHASHSEED")})
        except Exception as e:  # noqa: BLE001
            out.append({"error": f"{type(e).__name__}: {e}"})
    with open(outp, "wb") as f:
        pickle.dump(out, f)


if __name__ == "__main__":
    if len(sys.argv) == 4 and sys.argv[1] == "--child":
        _child(sys.argv[2], sys.argv[3])
