"""C04 -- equality and hashing are a sound structural congruence.

Events: results of ``a == b``, ``a != b``, ``hash(a)``, dict/set membership for
(i) a graph vs an independently rebuilt copy, (ii) a graph vs the graph with exactly
one field of one node changed (reflective mutator, every (node kind, field) pair),
(iii) random triples (reflexive / symmetric / transitive), (iv) pickle round trips in
this process and in a fresh interpreter with a different hash seed.
"""
from __future__ import annotations

import os
import pickle
import subprocess
import sys
import tempfile
from typing import Any

from vf import common
from vf.gen import graphs

LEVEL = "exploration"
RULE = ("graph corpus over every node kind (programs, loopy calls, traced functions, "
        "distributed nodes, CSR, symbolic shapes, ladders, all-edge-kinds graphs); for each "
        "graph: rebuilt copy, every one-field mutant of sampled nodes (each (node kind, field) "
        "pair is covered in several contexts), laws on triples, in-process and cross-process "
        "pickle round trips; distinct by (graph, node kind, field); non-trivial = the mutation "
        "site is below the root, or the pair crosses a process")
ASSUMPTIONS = [
    "non_equality_tags is the only field equality may ignore; tags/axes of NamedCallResult "
    "are derived from the function definition (tagging them is documented as illegal) and "
    "are not part of the matrix",
    "DataWrapper equality is identity by documentation, so rebuild / pickle clauses use "
    "graphs without data wrappers",
]
MIN_MONITOR = {"mon.mutant_inequality": 300, "mon.rebuild_equality": 20,
               "mon.pickle_crossprocess": 10, "mon.kind_field_pairs": 40}
SHARD_TIMEOUT = {"quick": 900, "thorough": 7200}
N_GRAPHS = {"quick": 400, "thorough": 4000}
NODES_PER_GRAPH = {"quick": 14, "thorough": 30}

# (node kind, field) pairs excluded from the inequality requirement, with the reason
EXEMPT = {
    ("*", "non_equality_tags"): "documented as excluded from equality",
    ("NamedCallResult", "tags"): "derived from FunctionDefinition.returns[name]; tagging is illegal",
    ("NamedCallResult", "axes"): "derived from FunctionDefinition.returns[name]; tagging is illegal",
    ("NamedCallResult", "non_equality_tags"): "derived",
}


def plan(tier: str, seed: int) -> list[dict[str, Any]]:
    descs = graphs.descriptors(common.sub_seed(seed, "c04") & 0x7FFFFFFF, N_GRAPHS[tier])
    n = common.NCPU * (1 if tier == "quick" else 3)
    return [{"descs": c, "nodes": NODES_PER_GRAPH[tier], "seed": seed, "idx": i}
            for i, c in enumerate(common.split_even(descs, n))]


def safe_repr(x: Any) -> str:
    try:
        return repr(x)[:200]
    except Exception:  # noqa: BLE001 -- mutants need not be semantically valid
        return f"<{type(x).__name__} (repr fails)>"


def eq_both(a: Any, b: Any) -> tuple[bool, bool, bool, bool]:
    return (a == b, b == a, a != b, b != a)


def check_graph(desc: dict[str, Any], col: common.Collector, nodes_per_graph: int,
                pool: list[Any]) -> Any:
    import pytato as pt
    from vf.oracle import mutate, reflect
    g = graphs.build(desc)
    wit0 = {"desc": desc}
    # (i) rebuilt copy
    g2 = graphs.build(desc)
    col.count("mon.rebuild_equality")
    e = eq_both(g, g2)
    if e != (True, True, False, False):
        col.violation("C04:rebuilt-copy-unequal", f"graph vs independently rebuilt copy: "
                      f"(a==b, b==a, a!=b, b!=a) = {e}", wit0)
    else:
        if hash(g) != hash(g2):
            col.violation("C04:equal-but-hash-differs:rebuilt", "rebuilt copy is equal but "
                          "hashes differently", wit0)
        try:
            if {g: 1}.get(g2) != 1 or g2 not in {g}:
                col.violation("C04:dict-membership:rebuilt", "rebuilt copy is not found as the "
                              "same dict/set key", wit0)
        except Exception as ex:  # noqa: BLE001
            col.violation(f"C04:hash-raises:{type(ex).__name__}", str(ex)[:120], wit0)
    # insertion order of mappings must not matter
    if isinstance(g, pt.DictOfNamedArrays) and len(g._data) > 1:
        rev = pt.make_dict_of_named_arrays(dict(reversed(list(g._data.items()))))
        col.count("mon.mapping_order")
        if not (g == rev and rev == g):
            col.violation("C04:mapping-order:DictOfNamedArrays", "dict of named arrays with "
                          "reversed insertion order compares unequal", wit0)
        elif hash(g) != hash(rev):
            col.violation("C04:equal-but-hash-differs:mapping-order:DictOfNamedArrays",
                          "equal up to insertion order but hashes differ", wit0)
    all_nodes = reflect.walk(g)
    done_kinds: set[str] = set()
    for n in all_nodes:
        bnd = getattr(n, "bindings", None)
        if bnd is not None and len(bnd) > 1 and type(n).__name__ in ("IndexLambda", "LoopyCall",
                                                                     "Call") \
                and type(n).__name__ not in done_kinds:
            done_kinds.add(type(n).__name__)
            col.count("mon.mapping_order")
            try:
                rb = reflect.replace_field(n, bindings=type(bnd)(dict(reversed(list(
                    bnd.items())))))
            except Exception:  # noqa: BLE001
                continue
            if not (n == rb and rb == n):
                col.violation(f"C04:mapping-order:{type(n).__name__}", "bindings with reversed "
                              "insertion order compare unequal", wit0)
            elif hash(n) != hash(rb):
                col.violation(f"C04:equal-but-hash-differs:mapping-order:{type(n).__name__}",
                              "nodes equal up to the insertion order of bindings hash "
                              "differently", {**wit0, "node": type(n).__name__})
    # (ii) one-field mutants
    rng = common.rng_for(desc["seed"], "c04-nodes")
    bykind: dict[str, list[Any]] = {}
    for n in all_nodes:
        bykind.setdefault(type(n).__name__, []).append(n)
    chosen: list[Any] = []
    kinds = sorted(bykind)
    rng.shuffle(kinds)
    while len(chosen) < nodes_per_graph and kinds:
        for k in list(kinds):
            if not bykind[k]:
                kinds.remove(k)
                continue
            chosen.append(bykind[k].pop(rng.randrange(len(bykind[k]))))
            if len(chosen) >= nodes_per_graph:
                break
    # function definitions are reached through Call.function
    from pytato.function import Call
    for n in all_nodes:
        if isinstance(n, Call):
            chosen.append(n.function)
            break
    for node in chosen:
        kind = type(node).__name__
        for field, mutant in mutate.field_mutants(node):
            base_field = field.split(".")[0]
            if ("*", base_field) in EXEMPT or (kind, base_field) in EXEMPT \
                    or ("*", field.split(".")[-1]) in EXEMPT:
                col.count("exempt_pairs")
                continue
            col.count("mon.mutant_inequality")
            col.histo("kind_field", f"{kind}.{field}")
            wit = {**wit0, "node_kind": kind, "field": field,
                   "node": safe_repr(node), "mutant": safe_repr(mutant)}
            try:
                e = eq_both(node, mutant)
            except Exception as ex:  # noqa: BLE001
                col.violation(f"C04:eq-raises:{kind}.{field}:{type(ex).__name__}",
                              f"comparison raised {type(ex).__name__}: {str(ex)[:100]}", wit)
                continue
            if e != (False, False, True, True):
                col.violation(f"C04:eq-ignores-field:{kind}.{field}",
                              f"nodes differing only in {kind}.{field} compare "
                              f"(a==b, b==a, a!=b, b!=a) = {e}", wit)
                try:
                    if hash(node) != hash(mutant):
                        col.count("equal_pairs_with_different_hash")
                        col.violation(f"C04:equal-but-hash-differs:{kind}.{field}",
                                      "the (wrongly) equal pair also hashes differently: == and "
                                      "hash disagree on this field", wit)
                except Exception:  # noqa: BLE001
                    pass
                continue
            # congruence: every ancestor must be unequal as well
            is_root = node is g
            if not is_root and not isinstance(node, reflect.T()["FunctionDefinition"]):
                try:
                    g_m = mutate.substitute(g, node, mutant)
                except Exception:  # noqa: BLE001
                    col.count("substitution_not_constructible")
                    g_m = None
                if g_m is not None and g_m is not g:
                    col.count("mon.congruence")
                    e2 = eq_both(g, g_m)
                    if e2 != (False, False, True, True):
                        col.violation(f"C04:congruence:{kind}.{field}",
                                      "the mutated node is unequal but the enclosing graphs "
                                      f"compare {e2}", wit)
                    if len(pool) < 40 and rng.random() < 0.1:
                        pool.append(g_m)
            col.case(common.stable_hash([desc, kind, field, id(node) % 9973]), not is_root,
                     {"graph": desc, "node_kind": kind, "field": field})
    pool.append(g)
    pool.append(g2)
    return g


def laws(pool: list[Any], col: common.Collector, rng: Any) -> None:
    n = len(pool)
    if n < 3:
        return
    for _ in range(min(400, n * n)):
        a, b, c = (pool[rng.randrange(n)] for _ in range(3))
        col.count("mon.law_triples")
        try:
            if not (a == a) or (a != a):
                col.violation("C04:not-reflexive", "a == a is False", {"a": repr(a)[:200]})
            ab, ba = (a == b), (b == a)
            if ab != ba:
                col.violation("C04:not-symmetric", f"a==b is {ab}, b==a is {ba}",
                              {"a": repr(a)[:200], "b": repr(b)[:200]})
            if ab and (b == c) and not (a == c):
                col.violation("C04:not-transitive", "a==b, b==c, a!=c", {"a": repr(a)[:200]})
            if ab and hash(a) != hash(b):
                col.violation("C04:equal-but-hash-differs:law", "a==b but hash differs",
                              {"a": repr(a)[:200], "b": repr(b)[:200]})
        except Exception as ex:  # noqa: BLE001
            col.violation(f"C04:eq-raises:law:{type(ex).__name__}", str(ex)[:120], {})


def leftover_hash_values(g: Any) -> int:
    from vf.oracle import reflect
    return sum(1 for n in reflect.walk(g) if "_hash_value" in getattr(n, "__dict__", {}))


def pickles(descs: list[dict[str, Any]], built: list[Any], col: common.Collector,
            seed: int, idx: int) -> None:
    # in-process
    blobs = []
    for d, g in zip(descs, built):
        hash(g)             # make sure the cache exists before pickling
        try:
            blob = pickle.dumps(g)
        except Exception as ex:  # noqa: BLE001
            col.violation(f"C04:pickle-fails:{type(ex).__name__}", str(ex)[:120], {"desc": d})
            blobs.append(None)
            continue
        blobs.append(blob)
        up = pickle.loads(blob)
        col.count("mon.pickle_inprocess")
        lo = leftover_hash_values(up)
        if lo:
            col.violation("C04:cached-hash-survives-pickling", f"{lo} unpickled node(s) still "
                          "carry _hash_value", {"desc": d})
        if not (up == g and g == up):
            col.violation("C04:unpickled-unequal:in-process", "pickle round trip is not equal "
                          "to the original", {"desc": d})
        elif hash(up) != hash(g):
            col.violation("C04:equal-but-hash-differs:unpickled", "unpickled copy is equal but "
                          "hashes differently", {"desc": d})
    # fresh interpreter, different hash seed
    with tempfile.TemporaryDirectory(prefix="vf-c04-") as td:
        inp = os.path.join(td, "in.pkl")
        outp = os.path.join(td, "out.pkl")
        with open(inp, "wb") as f:
            pickle.dump({"descs": descs, "blobs": blobs}, f)
        env = dict(os.environ, PYTHONHASHSEED=str(1 + (seed + idx) % 1000),
                   PYTHONPATH=str(common.VERIF_ROOT))
        r = subprocess.run([common.PYTHON, "-m", "vf.checks.c04", "--child", inp, outp],
                           env=env, capture_output=True, text=True, timeout=600,
                           cwd=str(common.VERIF_ROOT))
        if r.returncode != 0 or not os.path.exists(outp):
            col.inconc(f"cross-process child failed: {r.stderr[-300:]}")
            return
        with open(outp, "rb") as f:
            res = pickle.load(f)
    for d, rr in zip(descs, res):
        if rr is None:
            continue
        col.count("mon.pickle_crossprocess")
        if "error" in rr:
            col.violation(f"C04:unpickle-fails:{rr['error'][:40]}", rr["error"][:200], {"desc": d})
            continue
        if rr["leftover"]:
            col.violation("C04:cached-hash-survives-pickling", f"{rr['leftover']} node(s) carry "
                          "_hash_value after unpickling in another process", {"desc": d})
        if not (rr["eq1"] and rr["eq2"]):
            col.violation("C04:unpickled-unequal:cross-process", "graph unpickled in a fresh "
                          "interpreter (other hash seed) is not equal to the graph rebuilt "
                          "there", {"desc": d, "result": rr})
        elif not rr["hash_eq"] and not rr.get("loopy_tu_hash_stable", True):
            col.histo("trusted_base", "loopy TranslationUnit hash differs after unpickling")
        elif not rr["hash_eq"]:
            col.violation("C04:equal-but-hash-differs:cross-process", "unpickled and rebuilt "
                          "graphs are equal in the other process but hash differently",
                          {"desc": d})
        col.case(common.stable_hash(["xproc", d]), True, {"graph": d, "cross_process": rr})


def constant_pairs(col: common.Collector) -> None:
    """Pairs of expressions that differ in ONE scalar constant which influences the
    computed result (so they must be unequal), built through the public API."""
    import numpy as np
    import pytato as pt
    x = pt.make_placeholder("x", (3,), np.float64)
    c = pt.make_placeholder("c", (3,), np.bool_)
    n = pt.make_placeholder("n", (3,), np.int64)
    mk = {
        "add": lambda k: x + k, "radd": lambda k: k + x, "mul": lambda k: x * k,
        "truediv-left": lambda k: k / x, "where": lambda k: pt.where(c, x, k),
        "full": lambda k: pt.full((3,), k, dtype=np.float64),
        "maximum": lambda k: pt.maximum(x, k), "pow": lambda k: x ** k,
    }
    consts = {
        "signed-zero": (0.0, -0.0),                 # x + 0.0 vs x + -0.0 differ at x = -0.0
        "np-signed-zero": (np.float64(0.0), np.float64(-0.0)),
        "one-two": (1.0, 2.0),
        "tiny-difference": (1.0, 1.0 + 2 ** -52),
        "large-ints": (2 ** 53, 2 ** 53 + 1),
        "complex-zero-sign": (complex(0.0, 0.0), complex(0.0, -0.0)),
    }
    for cn, (a, b) in consts.items():
        for on, f in mk.items():
            try:
                if cn == "large-ints":
                    ea, eb = (n + a, n + b) if on == "add" else (None, None)
                    if ea is None:
                        continue
                else:
                    ea, eb = f(a), f(b)
            except Exception:  # noqa: BLE001 -- constructor refuses the operand
                continue
            col.count("mon.constant_pairs")
            try:
                e1, e2 = ea == eb, eb == ea
            except Exception as ex:  # noqa: BLE001
                col.violation(f"C04:eq-raises:constant:{type(ex).__name__}", str(ex)[:120],
                              {"constant": cn, "op": on})
                continue
            if e1 or e2:
                col.violation(f"C04:eq-ignores-constant:{cn}",
                              f"{on} with constant {a!r} compares equal to {on} with constant "
                              f"{b!r} although the computed results differ",
                              {"constant": cn, "op": on})


def wrapper_laws(col: common.Collector) -> None:
    """Wrapped data compares by identity (documented).  Whatever == answers for wrappers over
    the same / equal / different buffers, it must be symmetric, agree with != and with the
    hash, and carry over to expressions built on them."""
    import pickle

    import numpy as np
    import pytato as pt
    arr = np.arange(6.0).reshape(2, 3)
    w1 = pt.make_data_wrapper(arr)
    cases = {
        "same-object": (w1, w1, True),
        "same-buffer-two-wrappers": (w1, pt.make_data_wrapper(arr), None),
        "equal-copy": (w1, pt.make_data_wrapper(arr.copy()), None),
        "view": (w1, pt.make_data_wrapper(arr[:]), None),
        "different-data": (w1, pt.make_data_wrapper(arr + 1), False),
        "pickled": (w1, pickle.loads(pickle.dumps(w1)), None),
    }
    for label, (a, b, want) in cases.items():
        for wrap_name, wrap in (("bare", lambda x: x), ("expr", lambda x: 2 * x.T + 1),
                                ("dict", lambda x: pt.make_dict_of_named_arrays({"o": x}))):
            col.count("mon.wrapper_laws")
            ea, eb = wrap(a), wrap(b)
            wit = {"wrappers": label, "context": wrap_name}
            try:
                ab, ba, nab = ea == eb, eb == ea, ea != eb
            except Exception as ex:  # noqa: BLE001
                col.violation(f"C04:eq-raises:wrapper:{type(ex).__name__}", str(ex)[:120], wit)
                continue
            if ab != ba:
                col.violation(f"C04:not-symmetric:wrapper:{label}", f"a==b {ab}, b==a {ba}", wit)
            if nab == ab:
                col.violation(f"C04:ne-disagrees-with-eq:wrapper:{label}", f"== {ab}, != {nab}",
                              wit)
            if want is not None and ab != want:
                col.violation(f"C04:wrapper-equality:{label}", f"== is {ab}, expected {want}",
                              wit)
            if ab:
                try:
                    if hash(ea) != hash(eb) or eb not in {ea} or {ea: 1}.get(eb) != 1:
                        col.violation(f"C04:equal-but-hash-differs:wrapper:{label}",
                                      f"{wrap_name}: equal objects with different hashes / not "
                                      "found as dict key", wit)
                except Exception as ex:  # noqa: BLE001
                    col.violation(f"C04:hash-raises:wrapper:{type(ex).__name__}", str(ex)[:120],
                                  wit)


def turnover_laws(col: common.Collector, rounds: int = 150) -> None:
    """Equality must not depend on the HISTORY of object identities: compare, discard,
    build new objects (which the allocator places at the freed addresses), compare again.
    A verdict memoised under id() outlives the objects it was computed for."""
    import gc

    import numpy as np
    import pytato as pt
    from pytato.function import trace_call
    x = pt.make_placeholder("x", (3,), np.float64)

    def mk(k: float) -> Any:
        def f(a: Any) -> Any:
            return k * a + 1
        return trace_call(f, x)
    for i in range(rounds):
        col.count("mon.turnover_laws")
        a, b = mk(2.0), mk(5.0 + i)
        first = a == b
        del b
        gc.collect()
        c, d = mk(2.0), mk(7.0 + i)
        wit = {"round": i}
        if first:
            col.violation("C04:unequal-functions-compare-equal", "calls of x->2x+1 and "
                          "x->kx+1 (k != 2) compare equal", wit)
            break
        if not (a == c) or not (c == a) or hash(a) != hash(c):
            col.violation("C04:eq-depends-on-identity-history",
                          "a call of a rebuilt, structurally identical function definition "
                          "compares unequal after other objects were compared and discarded",
                          wit)
            break
        if a == d or c == d:
            col.violation("C04:eq-depends-on-identity-history",
                          "calls of different function definitions compare equal after other "
                          "objects were compared and discarded", wit)
            break
        del a, c, d


def run_shard(shard: dict[str, Any], col: common.Collector) -> None:
    pool: list[Any] = []
    built = []
    if shard.get("idx", 0) == 0:
        constant_pairs(col)
        wrapper_laws(col)
        turnover_laws(col)
    for desc in shard["descs"]:
        try:
            with common.time_limit(120):
                built.append(check_graph(desc, col, shard["nodes"], pool))
        except common.Timeout:
            col.count("graph_timeouts")
            built.append(None)
        except Exception as e:  # noqa: BLE001
            import traceback
            built.append(None)
            col.violation(f"C04:harness-exception:{type(e).__name__}@"
                          f"{common.exc_site(e, ('vf',))}",
                          f"unexpected {type(e).__name__}: {str(e)[:200]}",
                          {"desc": desc, "tb": traceback.format_exc()[-1500:]})
    laws(pool, col, common.rng_for(shard["seed"], "laws", shard["idx"]))
    ok = [(d, g) for d, g in zip(shard["descs"], built) if g is not None]
    kf = {k for k in col.hist.get("kind_field", {})}
    col.count("mon.kind_field_pairs", len(kf))
    if ok:
        pickles([d for d, _ in ok], [g for _, g in ok], col, shard["seed"], shard["idx"])


def coverage_extra(tier: str, counters: dict[str, int], hist: dict[str, dict[str, int]]
                   ) -> dict[str, Any]:
    return {"distinct_kind_field_pairs": len(hist.get("kind_field", {})),
            "exempt_pairs": EXEMPT and {f"{k}.{f}": r for (k, f), r in EXEMPT.items()}}


def replay(witness: dict[str, Any], col: common.Collector) -> None:
    pool: list[Any] = []
    check_graph(witness["desc"], col, 60, pool)


def _child(inp: str, outp: str) -> None:
    common.repo_setup()
    with open(inp, "rb") as f:
        data = pickle.load(f)
    out: list[Any] = []
    for d, blob in zip(data["descs"], data["blobs"]):
        if blob is None:
            out.append(None)
            continue
        try:
            up = pickle.loads(blob)
            lo = leftover_hash_values(up)
            rb = graphs.build(d)
            # trusted base: loopy's TranslationUnit caches its hash inside the pickle, so an
            # unpickled kernel may hash differently from an equal rebuilt one
            from pytato.loopy import LoopyCall
            from vf.oracle import reflect
            tu_ok = True
            for a_, b_ in zip(reflect.walk(up), reflect.walk(rb)):
                if isinstance(a_, LoopyCall) and isinstance(b_, LoopyCall):
                    if a_.translation_unit == b_.translation_unit and \
                            hash(a_.translation_unit) != hash(b_.translation_unit):
                        tu_ok = False
            out.append({"eq1": up == rb, "eq2": rb == up, "hash_eq": hash(up) == hash(rb),
                        "leftover": lo, "hashseed": os.environ.get("PYTHONHASHSEED"),
                        "loopy_tu_hash_stable": tu_ok})
        except Exception as e:  # noqa: BLE001
            out.append({"error": f"{type(e).__name__}: {e}"})
    with open(outp, "wb") as f:
        pickle.dump(out, f)


if __name__ == "__main__":
    if len(sys.argv) == 4 and sys.argv[1] == "--child":
        _child(sys.argv[2], sys.argv[3])
