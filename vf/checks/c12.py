"""C12 -- outlining a function (trace_call) and inlining its calls are inverse and
value-preserving.

A generated program becomes the body of a Python function of its placeholder inputs.  The
function is (a) applied directly to caller-level argument expressions and (b) traced with
trace_call under a random call convention (positional / keyword / mixed, one of the three
return conventions, repeated calls with other arguments, nesting up to depth 3, caller
placeholders named like the parameters trace_call invents).  Monitors:

  decl     every call result has the shape and dtype of the direct application
  value    reference evaluation of the call graph == direct application (bitwise)
  inline   tag_all_calls_to_be_inlined + inline_calls: no Call node remains
           (reflective walk and get_num_call_sites), values identical, output names kept
  inverse  the inlined graph is structurally equal to the direct application
  compiled sampled: generate_loopy of the traced graph (inlines on its own) vs NumPy
"""
from __future__ import annotations

from typing import Any

import numpy as np

from vf import common
from vf.gen import proggen
from vf.gen import progspec as ps

LEVEL = "exploration"
RULE = ("shape/dtype/value(trace_call(f, args)) == f(args); inline_calls(tag_all(g)) is "
        "call-free and evaluates identically; inlined graph == direct application")
ASSUMPTIONS = ["vf.oracle.refeval (its Call rule evaluates the body in a fresh environment of "
               "the evaluated bindings) is the meaning of a call; guarded by the NumPy shadow"]
MIN_MONITOR = {"mon.traced": 300, "mon.value": 600, "mon.inlined": 300, "mon.inverse": 300,
               "mon.keyword_calls": 80, "mon.nested": 40, "mon.repeated": 40,
               "mon.call_in_argument": 40}
SHARD_TIMEOUT = {"quick": 900, "thorough": 7200}
N_PROGRAMS = {"quick": 1440, "thorough": 12000}
PROFILES = ["mixed", "elementwise", "reduce", "index", "einsum", "zero"]
OPTS = {"no_loopy": True, "dw_prob": 0.15}


def plan(tier: str, seed: int) -> list[dict[str, Any]]:
    rng = common.rng_for(seed, "c12")
    cases = [{"seed": rng.getrandbits(31), "profile": PROFILES[i % len(PROFILES)],
              "compile": i % (6 if tier == "thorough" else 12) == 0}
             for i in range(N_PROGRAMS[tier])]
    n = common.NCPU * (1 if tier == "quick" else 4)
    return [{"cases": c, "idx": i} for i, c in enumerate(common.split_even(cases, n))]


def evaluate(outs: dict[str, Any], env: dict[str, Any]) -> dict[str, np.ndarray]:
    from vf.oracle import refeval
    ev = refeval.RefEval(env)
    return {k: np.asarray(ev(v)) for k, v in outs.items()}


def scenario(spec: dict[str, Any], rng: Any) -> dict[str, Any]:
    phs = [i for i in spec["inputs"] if i["kind"] == "ph"]
    rng.shuffle(phs)
    params = phs[:rng.randint(1, min(4, len(phs)))] if phs else []
    conv = rng.choice(["positional", "keyword", "mixed", "mixed"])
    kwnames = {}
    for j, p in enumerate(params):
        is_kw = conv == "keyword" or (conv == "mixed" and rng.random() < 0.5)
        if is_kw:
            kwnames[p["id"]] = rng.choice([f"k{j}", f"arg{j}", p["name"], "x", "_in0", "in",
                                           f"pt_{j}", f"in__pt_{j}x"]) + ("" if j == 0 else str(j))
    ret = rng.choice(["array", "tuple", "dict"]) if len(spec["outputs"]) == 1 else \
        rng.choice(["tuple", "dict"])
    # caller-level names: either the spec's own, or names trace_call uses for parameters
    adversarial = rng.random() < 0.4
    caller_names = {}
    pos = 0
    for p in params:
        if adversarial:
            if p["id"] in kwnames:
                caller_names[p["id"]] = f"in_{kwnames[p['id']]}"
            else:
                # the name of ANOTHER positional parameter's placeholder
                caller_names[p["id"]] = f"in__pt_{(pos + 1) % max(1, len(params))}"
                pos += 1
    if len(set(caller_names.values())) != len(caller_names):
        caller_names = {}
    return {"params": [p["id"] for p in params], "kw": {str(k): v for k, v in kwnames.items()},
            "ret": ret, "caller_names": {str(k): v for k, v in caller_names.items()},
            "arg_expr": rng.choice(["plain", "plain", "scaled", "shared", "call", "call"]),
            "depth": rng.choice([1, 1, 1, 2, 3]), "repeat": rng.random() < 0.3,
            "reuse_definition": rng.random() < 0.5}


def make_function(spec: dict[str, Any], sc: dict[str, Any], vset: int) -> Any:
    """The Python function whose body is the program; positional parameters first."""
    params = sc["params"]
    kw = {int(k): v for k, v in sc["kw"].items()}
    pos_ids = [p for p in params if p not in kw]
    iv = {k: np.asarray(v) for k, v in ps.input_values(spec, vset).items()}

    def f(*args: Any, **kwargs: Any) -> Any:
        arrays = dict(zip(pos_ids, args))
        for pid, name in kw.items():
            arrays[pid] = kwargs[name]
        b = ps.PtBuild(spec, vset=vset, data_values=iv, input_arrays=arrays)
        outs = b.outputs()
        if sc["ret"] == "array":
            return next(iter(outs.values()))
        if sc["ret"] == "tuple":
            return tuple(outs[k] for k in sorted(outs))
        return dict(outs)
    f.__name__ = "vf_body"
    return f, pos_ids, kw


def as_dict(res: Any, spec: dict[str, Any], sc: dict[str, Any]) -> dict[str, Any]:
    keys = sorted(spec["outputs"])
    if sc["ret"] == "array":
        return {next(iter(spec["outputs"])): res}
    if sc["ret"] == "tuple":
        return dict(zip(keys, res))
    return dict(res)


def check_case(case: dict[str, Any], col: common.Collector) -> None:
    import pytato as pt
    from pytato.analysis import get_num_call_sites
    from pytato.function import Call
    from pytato.transform.calls import inline_calls, tag_all_calls_to_be_inlined
    from vf.oracle import compare, reflect
    spec = case.get("spec")
    if spec is None:
        spec = proggen.generate(case["seed"], case["profile"], opts=OPTS)
    rng = common.rng_for(spec["vseed"], "c12")
    sc = case.get("scenario") or scenario(spec, rng)
    if not sc["params"]:
        col.histo("skipped", "no-placeholder-inputs")
        col.case()
        return
    vset = 0
    try:
        ref, spread, fragile, _p = ps.reference(spec, vset)
    except Exception as e:  # noqa: BLE001
        col.histo("skipped", f"shadow:{type(e).__name__}")
        col.case()
        return
    if fragile:
        col.count("skipped_fragile")
        col.case()
        return
    wit = {"spec": spec, "scenario": sc}
    f, pos_ids, kw = make_function(spec, sc, vset)
    inputs = {i["id"]: i for i in spec["inputs"]}
    iv = ps.input_values(spec, vset)
    cn = {int(k): v for k, v in sc["caller_names"].items()}
    env: dict[str, Any] = {}
    caller: dict[int, Any] = {}
    try:
        for i in spec["inputs"]:
            if i["kind"] != "ph":
                continue
            name = cn.get(i["id"], i["name"])
            caller[i["id"]] = pt.make_placeholder(name, tuple(i["shape"]), np.dtype(i["dtype"]))
            env[name] = np.asarray(iv[i["id"]])
    except Exception as e:  # noqa: BLE001
        col.histo("skipped", f"caller-names:{type(e).__name__}")
        col.case()
        return
    if len(env) != len(caller):
        col.histo("skipped", "caller-name-collision")
        col.case()
        return

    def helper(a: Any, b: Any) -> Any:
        # value-identical to a; uses both parameters
        return a + b * 0 if a.dtype.kind in "ifc" else pt.where(pt.equal(b, b), a, b)
    helper.__name__ = "vf_helper"

    def arg_for(pid: int, traced: bool = True) -> Any:
        a = caller[pid]
        if sc["arg_expr"] == "scaled" and a.dtype.kind in "fc":
            return (a * 2) * 0.5          # an expression, value-identical (exact scaling)
        if sc["arg_expr"] == "shared" and a.dtype.kind in "ifc":
            return a + 0
        if sc["arg_expr"] == "call":
            # the argument is itself (an expression of) a call result
            return pt.trace_call(helper, a, a) if traced else helper(a, a)
        return a

    # non-parameter placeholders are closed over by the body: outside trace_call's contract,
    # so they are passed as parameters too -- every placeholder input is a parameter
    extra = [i["id"] for i in spec["inputs"] if i["kind"] == "ph" and i["id"] not in sc["params"]]
    if extra:
        sc = dict(sc)
        sc["params"] = list(sc["params"]) + extra
        f, pos_ids, kw = make_function(spec, sc, vset)
        wit = {"spec": spec, "scenario": sc}
    # ---- direct application
    try:
        dargs = [arg_for(p, False) for p in pos_ids]
        dkwargs = {name: arg_for(pid, False) for pid, name in kw.items()}
        args = [arg_for(p) for p in pos_ids]
        kwargs = {name: arg_for(pid) for pid, name in kw.items()}
        if sc["arg_expr"] == "call":
            col.count("mon.call_in_argument")
        direct = as_dict(f(*dargs, **dkwargs), spec, sc)
        dvals = evaluate(direct, env)
    except Exception as e:  # noqa: BLE001 -- C01/C03's business
        col.histo("skipped", f"direct:{type(e).__name__}")
        col.case()
        return
    for k, v in dvals.items():
        with np.errstate(all="ignore"):
            w = ref[k].astype(v.dtype) if k in ref else None
        if w is None or v.shape != w.shape or \
                not compare.close_ulps(v, w, 16.0, err=8.0 * spread[k]):
            col.histo("skipped", "refeval-disagrees-with-shadow")
            col.case()
            return
    # ---- traced
    def traced_call(fn: Any, a: list[Any], kws: dict[str, Any], depth: int) -> Any:
        if depth <= 1:
            return pt.trace_call(fn, *a, **kws)

        def outer(*aa: Any, **kk: Any) -> Any:
            return traced_call(fn, list(aa), kk, depth - 1)
        outer.__name__ = f"vf_outer{depth}"
        return pt.trace_call(outer, *a, **kws)
    try:
        res = traced_call(f, args, kwargs, sc["depth"])
        traced = as_dict(res, spec, sc)
    except Exception as e:  # noqa: BLE001
        conv = "kw" if kw else "pos"
        col.violation(f"C12:trace_call-raises:{type(e).__name__}@{common.exc_site(e)}:{conv}:"
                      f"depth{min(sc['depth'], 2)}",
                      f"trace_call raised {type(e).__name__} where the direct application "
                      f"works: {str(e)[:160]}", wit)
        col.case()
        return
    col.count("mon.traced")
    if kw:
        col.count("mon.keyword_calls")
    if sc["depth"] > 1:
        col.count("mon.nested")
    col.histo("return_convention", sc["ret"])
    col.histo("depth", str(sc["depth"]))
    if sc["caller_names"]:
        col.count("adversarial_caller_names")
    if set(traced) != set(direct):
        col.violation("C12:return-structure", f"{sorted(traced)} vs {sorted(direct)}", wit)
        col.case()
        return
    for k in direct:
        if tuple(traced[k].shape) != tuple(direct[k].shape) or traced[k].dtype != direct[k].dtype:
            col.violation("C12:declared-shape-dtype",
                          f"{k}: call result {traced[k].shape}/{traced[k].dtype}, direct "
                          f"{direct[k].shape}/{direct[k].dtype}", wit)
    g = pt.transform.deduplicate(pt.make_dict_of_named_arrays(traced))
    ncalls = sum(1 for n in reflect.walk(g, enter_functions=True) if isinstance(n, Call))
    if ncalls < sc["depth"]:
        col.violation("C12:no-call-created", f"{ncalls} Call nodes for nesting depth "
                      f"{sc['depth']}", wit)
    # optional: a second call of the SAME definition / a re-traced definition with other args
    graphs = [("first", g, dvals)]
    if sc["repeat"] and sc["depth"] == 1:
        try:
            swapped = {}
            for pid in sc["params"]:
                # same-typed other argument: the argument expression shifted by an exact term
                a = caller[pid]
                swapped[pid] = a if a.dtype.kind == "b" else a + a
            a2 = [swapped[p] for p in pos_ids]
            k2 = {name: swapped[pid] for pid, name in kw.items()}
            d2 = as_dict(f(*a2, **k2), spec, sc)
            v2 = evaluate(d2, env)
            call0 = next(iter(traced.values()))._container
            if sc["reuse_definition"]:
                fd = call0.function
                names = {}
                for j, pid in enumerate(pos_ids):
                    names[f"in__pt_{j}"] = swapped[pid]
                for pid, name in kw.items():
                    names[f"in_{name}"] = swapped[pid]
                r2 = fd(**names)
            else:
                r2 = pt.trace_call(f, *a2, **k2)
            t2 = as_dict(r2, spec, sc)
            both = {**{f"a_{k}": v for k, v in traced.items()},
                    **{f"b_{k}": v for k, v in t2.items()}}
            want = {**{f"a_{k}": v for k, v in dvals.items()},
                    **{f"b_{k}": v for k, v in v2.items()}}
            graphs.append(("repeated", pt.transform.deduplicate(
                pt.make_dict_of_named_arrays(both)), want))
            col.count("mon.repeated")
        except Exception as e:  # noqa: BLE001
            if any(caller[p].dtype.kind == "b" for p in sc["params"]):
                col.histo("skipped", "repeat-bool")
            else:
                col.histo("repeat_failed", f"{type(e).__name__}@{common.exc_site(e)}")
    for label, gg, want in graphs:
        # ---- value of the call graph
        try:
            got = evaluate({k: gg[k].expr for k in gg}, env)
        except Exception as e:  # noqa: BLE001
            col.violation(f"C12:call-graph-not-evaluable:{type(e).__name__}",
                          f"{label}: {str(e)[:160]}", wit)
            continue
        col.count("mon.value", len(got))
        for k, w in want.items():
            if got[k].dtype != w.dtype or not compare.same_exact(got[k], w):
                col.violation(f"C12:value:call:{label}",
                              f"call result {k} differs from the direct application: "
                              f"{compare.describe_diff(got[k], w)}", wit)
                break
        # ---- inlining
        try:
            inl = inline_calls(tag_all_calls_to_be_inlined(gg))
        except Exception as e:  # noqa: BLE001
            col.violation(f"C12:inline-raises:{type(e).__name__}@{common.exc_site(e)}:{label}",
                          f"inline_calls raised: {str(e)[:160]}", wit)
            continue
        col.count("mon.inlined")
        left = sum(1 for n in reflect.walk(inl, enter_functions=True) if isinstance(n, Call))
        if left or get_num_call_sites(inl):
            col.violation(f"C12:calls-remain-after-inlining:{label}",
                          f"{left} Call node(s) (get_num_call_sites={get_num_call_sites(inl)}) "
                          "after inlining all calls", wit)
        if set(inl.keys()) != set(gg.keys()):
            col.violation("C12:inline-output-names", f"{sorted(inl.keys())}", wit)
            continue
        try:
            gi = evaluate({k: inl[k].expr for k in inl}, env)
            for k, w in want.items():
                if gi[k].dtype != w.dtype or not compare.same_exact(gi[k], w):
                    col.violation(f"C12:value:inlined:{label}",
                                  f"output {k} of the inlined graph differs from the direct "
                                  f"application: {compare.describe_diff(gi[k], w)}", wit)
                    break
        except Exception as e:  # noqa: BLE001
            col.violation(f"C12:inlined-graph-not-evaluable:{type(e).__name__}",
                          f"{label}: {str(e)[:160]}", wit)
        # ---- inverse: inlined == direct (structurally)
        if label == "first":
            col.count("mon.inverse")
            dg = pt.transform.deduplicate(pt.make_dict_of_named_arrays(direct))
            # (data wrappers compare by object identity and f builds fresh ones on every
            # call: structural equality is decided by the reflective fingerprint, which
            # digests the wrapped bytes)
            if not (inl == dg) and reflect.fingerprint(inl) != reflect.fingerprint(dg):
                # which output differs, and is it only tags?
                a = reflect.fingerprint(inl, with_tags=False, with_axes_tags=False)
                b = reflect.fingerprint(dg, with_tags=False, with_axes_tags=False)
                kind = "tags-only" if a == b else "structure"
                col.violation(f"C12:inline-not-inverse-of-outline:{kind}",
                              "inline_calls(trace_call(f, args)) is not equal to f(args)", wit)
    # ---- compiled (sampled): generate_loopy inlines tagged calls itself
    if case.get("compile"):
        try:
            from vf.exec import ctarget
            bp = ctarget.generate(pt.transform.deduplicate(tag_all_calls_to_be_inlined(g)))
            rr = ctarget.run(ctarget.compile_program(bp), bp, env)
            col.count("mon.compiled")
            for k, w in dvals.items():
                gv = rr.outputs[k]
                with np.errstate(all="ignore"):
                    w2 = ref[k].astype(gv.dtype)
                if gv.shape != w2.shape or not compare.close_ulps(gv, w2, 16.0,
                                                                   err=8.0 * spread[k]):
                    dgp = ctarget.generate(pt.transform.deduplicate(
                        pt.make_dict_of_named_arrays(direct)))
                    r0 = ctarget.run(ctarget.compile_program(dgp), dgp, env)
                    if r0.outputs[k].shape == w2.shape and compare.close_ulps(
                            r0.outputs[k], w2, 16.0, err=8.0 * spread[k]):
                        col.violation("C12:compiled-value", f"compiled traced graph: output {k} "
                                      "wrong, compiled direct application right", wit)
                    else:
                        col.histo("compiled_baseline_wrong", "x")
                    break
        except Exception as e:  # noqa: BLE001
            col.histo("compile_failed", type(e).__name__)
    col.case(common.stable_hash([spec, sc]), True,
             {"ops": ps.node_kinds(spec), "scenario": {k: v for k, v in sc.items()}})


def directed() -> list[dict[str, Any]]:
    """Same-typed parameters in a non-commutative body, under every convention: an argument
    bound to the wrong parameter changes a value but no shape."""
    out = []
    for shape, dt in (([3], "float64"), ([2, 2], "int64"), ([], "float32")):
        inputs = [{"id": i, "kind": "ph", "shape": shape, "dtype": dt, "pool": "dyadic",
                   "name": f"x{i}"} for i in range(3)]
        nodes = [{"id": 3, "op": "sub", "args": [0, 1], "params": {}},
                 {"id": 4, "op": "mul", "args": [2, ps.enc_scalar(3)], "params": {}},
                 {"id": 5, "op": "sub", "args": [3, 4], "params": {}},
                 {"id": 6, "op": "add", "args": [1, 4], "params": {}}]
        j = 0
        for conv in ("positional", "keyword", "mixed"):
            for ret, outs in (("array", {"out0": 5}), ("tuple", {"out0": 5, "out1": 6}),
                              ("dict", {"out0": 6, "out1": 5})):
                for depth in (1, 2, 3):
                    for adversarial in (False, True):
                        j += 1
                        spec = {"inputs": inputs, "nodes": nodes, "outputs": outs,
                                "vseed": 4200 + j, "profile": "directed"}
                        kw = {}
                        if conv == "keyword":
                            kw = {"0": "a", "1": "b", "2": "c"}
                        elif conv == "mixed":
                            kw = {"1": "mid"}
                        cn = {}
                        if adversarial:
                            pos = [p for p in ("0", "1", "2") if p not in kw]
                            for n_, p in enumerate(pos):
                                cn[p] = f"in__pt_{(n_ + 1) % len(pos)}" if len(pos) > 1 \
                                    else "in__pt_0"
                            for p, name in kw.items():
                                cn[p] = f"in_{name}"
                        sc = {"params": [0, 1, 2], "kw": kw, "ret": ret, "caller_names": cn,
                              "arg_expr": "plain", "depth": depth, "repeat": depth == 1,
                              "reuse_definition": j % 2 == 0}
                        out.append({"spec": spec, "scenario": sc, "compile": j % 9 == 0})
    # many results: tuple entries _0 .. _11 (string order differs from numeric order), and a
    # dictionary whose keys look like tuple entries
    inputs = [{"id": 0, "kind": "ph", "shape": [3], "dtype": "float64", "pool": "dyadic",
               "name": "x0"}]
    nodes = [{"id": 1 + k, "op": "mul", "args": [0, ps.enc_scalar(float(k + 1))], "params": {}}
             for k in range(12)]
    for ret, keys in (("tuple", [f"out{k:02d}" for k in range(12)]),
                      ("dict", [f"_{k}" for k in range(12)])):
        for depth in (1, 2):
            spec = {"inputs": inputs, "nodes": nodes,
                    "outputs": {keys[k]: 1 + k for k in range(12)},
                    "vseed": 4900 + depth, "profile": "directed"}
            sc = {"params": [0], "kw": {}, "ret": ret, "caller_names": {}, "arg_expr": "plain",
                  "depth": depth, "repeat": False, "reuse_definition": False}
            out.append({"spec": spec, "scenario": sc, "compile": False})
    return out


def run_shard(shard: dict[str, Any], col: common.Collector) -> None:
    cases = list(shard["cases"])
    if shard.get("idx", 0) == 0:
        d = directed()
        col.count("mon.directed", len(d))
        cases = d + cases
    for case in cases:
        try:
            with common.time_limit(240):
                check_case(case, col)
        except common.Timeout:
            col.count("case_timeouts")
        except Exception as e:  # noqa: BLE001
            import traceback
            col.violation(f"C12:harness-exception:{type(e).__name__}@"
                          f"{common.exc_site(e, ('vf',))}",
                          f"unexpected {type(e).__name__}: {str(e)[:200]}",
                          {"case": case, "tb": traceback.format_exc()[-1500:]})


def replay(witness: dict[str, Any], col: common.Collector) -> None:
    check_case({"spec": witness["spec"], "scenario": witness.get("scenario"), "compile": True},
               col)
