"""C13 -- cached mappers visit each node once, preserve sharing and reach every child.

Events: the mapper event trace (vf.monitors.maptrace) for every public mapper class and
mapper-based function on one graph at a time; result objects of transformations.
Oracle: the committed discipline table below (read off the class docstrings):
 (1) exactly-once per (mapper instance, node[, extra-args key]) on duplicate-free graphs,
     with a logical event budget that turns exponential re-traversal into a violation;
 (2) reach: nodes visited >= nodes found by the reflective walk (documented skips listed);
 (3) transformations: identity returns its argument (`is`), every use of a shared node maps
     to one result object, distinct-node count of the result <= that of the input;
 (4) structurally equal DISTINCT objects fed to a collision-checking mapper raise the
     cache-collision ValueError, and deduplicate merges them.
"""
from __future__ import annotations

from typing import Any

from vf import common
from vf.gen import graphs

LEVEL = "exploration"
RULE = ("graph corpus (diamonds, ladders of depth 5..60, one node used through every edge "
        "kind, programs, functions, distributed nodes, CSR, symbolic shapes), hash-consed to be "
        "duplicate-free, x every application of the table (28 mapper classes / functions); "
        "distinct by (graph, application); non-trivial = the graph has a node with >= 2 "
        "incoming paths")
ASSUMPTIONS = [
    "the discipline table (DISCIPLINE / APPLICATIONS / SKIPS below) is derived from the class "
    "docstrings; a row contradicted by the unchanged tree is examined against the docstring "
    "before it is corrected",
    "in-place wrapping of map_* attributes observes every dispatch (verified: wrapped count "
    "reported in evidence)",
]
MIN_MONITOR = {"mon.single_change_oracle": 300, "mon.applications": 300, "mon.once_oracle": 200, "mon.reach_oracle": 200,
               "mon.identity_oracle": 50, "mon.collision_oracle": 10}
SHARD_TIMEOUT = {"quick": 900, "thorough": 7200}
N_GRAPHS = {"quick": 1600, "thorough": 8000}

# class name (first match along the MRO) -> discipline
ONCE = {"CachedMapper", "EqualityComparer"}          # exactly once per (mapper, node, key)
IDWALK = {"CachedWalkMapper"}                        # exactly once per object
UNCACHED = {"Mapper", "WalkMapper"}                  # reach only


def discipline(mapper: Any) -> str:
    for c in type(mapper).__mro__:
        n = c.__name__
        if n in IDWALK:
            return "idwalk"
        if n in ONCE:
            return "once"
    return "uncached"


def applications() -> list[tuple[str, Any, dict[str, Any]]]:
    """[(name, callable(graph) -> result, flags)]; flags: transform, identity (result must be
    the argument on these duplicate-free, already-normal graphs), skip_bodies, no_calls,
    no_dist."""
    import pytato as pt
    from pytato import analysis as an
    from pytato import transform as tr
    from pytato.transform.calls import inline_calls, tag_all_calls_to_be_inlined
    from vf.vtags import VTag
    A: list[tuple[str, Any, dict[str, Any]]] = []
    A.append(("CopyMapper", lambda g: tr.CopyMapper()(g), {"transform": True, "identity": True}))
    A.append(("map_and_copy(identity)", lambda g: tr.map_and_copy(g, lambda x: x),
              {"transform": True, "identity": True}))
    A.append(("deduplicate", lambda g: tr.deduplicate(g), {"transform": True, "identity": True}))
    A.append(("deduplicate_data_wrappers", lambda g: tr.deduplicate_data_wrappers(g),
              {"transform": True, "identity": True}))
    # DeadCodeEliminator deliberately does not descend into the operand of zeros_like
    A.append(("eliminate_dead_code", lambda g: pt.eliminate_dead_code(g),
              {"transform": True, "no_reach": True}))
    A.append(("materialize_with_mpms", lambda g: pt.materialize_with_mpms(g),
              {"transform": True, "no_calls": True, "no_shape": True}))
    A.append(("inline_calls", lambda g: inline_calls(tag_all_calls_to_be_inlined(g)),
              {"transform": True, "may_grow": True}))
    # context mapper: a node is mapped once per (node, axes-to-squeeze) request and index
    # nodes are added by design
    A.append(("rewrite_einsums_with_no_broadcasts",
              lambda g: pt.rewrite_einsums_with_no_broadcasts(g),
              {"transform": True, "may_grow": True, "context_mapper": True}))
    A.append(("InputGatherer", lambda g: tr.InputGatherer()(g), {}))
    A.append(("ListOfInputsGatherer", lambda g: tr.ListOfInputsGatherer()(g), {}))
    A.append(("SizeParamGatherer", lambda g: tr.SizeParamGatherer()(g), {}))
    A.append(("DependencyMapper", lambda g: [tr.DependencyMapper()(v)
                                             for v in _values(g)][:1] if False
              else tr.get_dependencies(g), {"skip_bodies": True, "no_root": True}))
    A.append(("TopoSortMapper", lambda g: _topo(g), {"skip_bodies": True}))
    A.append(("UsersCollector", lambda g: tr.get_users(g), {"skip_bodies": True}))
    A.append(("get_num_nodes(dups)", lambda g: an.get_num_nodes(g, count_duplicates=True), {}))
    A.append(("get_num_nodes(nodups)", lambda g: an.get_num_nodes(g, count_duplicates=False),
              {}))
    A.append(("get_node_type_counts", lambda g: an.get_node_type_counts(g), {}))
    A.append(("get_node_multiplicities", lambda g: an.get_node_multiplicities(g), {}))
    A.append(("get_num_call_sites", lambda g: an.get_num_call_sites(g), {}))
    A.append(("get_nusers", lambda g: an.get_nusers(g), {"skip_bodies": True}))
    A.append(("get_list_of_users", lambda g: an.get_list_of_users(g), {"skip_bodies": True}))
    A.append(("collect_materialized_nodes",
              lambda g: an.collect_materialized_nodes(g, include_outputs=True), {}))
    A.append(("get_num_tags_of_type", lambda g: an.get_num_tags_of_type(g, VTag),
              {"skip_bodies": True}))
    A.append(("tag_all_calls_to_be_inlined", lambda g: tag_all_calls_to_be_inlined(g),
              {"transform": True}))
    # the mapped function replaces the node before the per-node method sees it, so the
    # trace is keyed by fresh objects; the oracle is the function's own call log instead
    A.append(("map_and_copy(tag)", lambda g: tr.map_and_copy(g, _tagger),
              {"transform": True, "no_reach": True, "fn_calls": True}))
    A.append(("unify_axes_tags", lambda g: _unify(g), {"transform": True}))
    A.append(("einsum_distributive(no)", lambda g: _distr(g, False),
              {"transform": True, "context_mapper": True, "may_grow": True}))
    A.append(("einsum_distributive(yes)", lambda g: _distr(g, True),
              {"transform": True, "context_mapper": True, "may_grow": True}))
    A.append(("CopyMapperWithExtraArgs", lambda g: _CopyX()(g, 3),
              {"transform": True, "identity": True}))
    A.append(("SubsetDependencyMapper", lambda g: _subsetdep(g), {"skip_bodies": True}))
    A.append(("rec_get_user_nodes", lambda g: _user_nodes(g), {"no_reach": True}))
    A.append(("get_dot_graph", lambda g: _dot(g), {"no_reach": True}))
    A.append(("repr", lambda g: repr(g), {"no_reach": True}))
    A.append(("equality", lambda g: g == _rebuilt(g), {"pairwise": True}))
    return A


_TAGGER_CALLS: list[Any] = []


def _tagger(x: Any) -> Any:
    import pytato as pt
    from vf.vtags import VTag
    _TAGGER_CALLS.append(x)
    if isinstance(x, pt.NamedArray):
        return x             # (named results carry no tags of their own)
    return x.tagged(VTag(5)) if isinstance(x, pt.Array) else x


def _unify(g: Any) -> Any:
    from pytato.transform.metadata import unify_axes_tags
    return unify_axes_tags(g)


def _distr(g: Any, yes: bool) -> Any:
    from pytato.transform.einsum_distributive_law import (
        DoDistribute, DoNotDistribute, apply_distributive_property_to_einsums)
    return apply_distributive_property_to_einsums(
        g, (lambda e: DoDistribute(0)) if yes else (lambda e: DoNotDistribute()))


_COPYX: list[Any] = []


def _CopyX() -> Any:
    if not _COPYX:
        from pytato import transform as tr

        class CopyX(tr.CopyMapperWithExtraArgs):  # type: ignore[type-arg,misc]
            def get_cache_key(self, expr: Any, k: Any) -> Any:
                return (expr, k)

            def get_function_definition_cache_key(self, expr: Any, k: Any) -> Any:
                return (expr, k)

            def clone_for_callee(self, function: Any) -> Any:
                return type(self)(err_on_collision=self._cache.err_on_collision,
                                  _function_cache=self._function_cache)
        _COPYX.append(CopyX)
    return _COPYX[0]()


def _subsetdep(g: Any) -> Any:
    from pytato import transform as tr
    inputs = frozenset(tr.InputGatherer()(g))
    m = tr.SubsetDependencyMapper(inputs)
    return m(g)


def _user_nodes(g: Any) -> Any:
    import pytato as pt
    from pytato import transform as tr
    from vf.oracle import reflect
    leaves = [n for n in reflect.walk(g, enter_functions=False)
              if isinstance(n, pt.array.InputArgumentBase)]
    return [tr.rec_get_user_nodes(g, n) for n in leaves[:3]]


def _dot(g: Any) -> Any:
    from pytato.visualization import get_dot_graph
    return get_dot_graph(g)


_REBUILD: dict[int, Any] = {}


def _rebuilt(g: Any) -> Any:
    from vf.oracle import reflect
    # a distinct, structurally equal copy (every node cloned)
    memo: dict[int, Any] = {}

    def fn(n: Any, vals: dict[str, Any]) -> Any:
        return reflect._construct_like(n, vals)
    del memo
    return reflect.rebuild(g, fn)


def _values(g: Any) -> list[Any]:
    import pytato as pt
    if isinstance(g, pt.DictOfNamedArrays):
        return list(g._data.values())
    return [g]


def _topo(g: Any) -> Any:
    from pytato.transform import TopoSortMapper
    m = TopoSortMapper()
    m(g)
    return m.topological_order


def plan(tier: str, seed: int) -> list[dict[str, Any]]:
    descs = graphs.descriptors(common.sub_seed(seed, "c13") & 0x7FFFFFFF, N_GRAPHS[tier])
    for i, d in enumerate(descs):
        d["dw"] = i % 3 == 0          # wrapped data in a third of the generated programs
    n = common.NCPU * (1 if tier == "quick" else 3)
    return [{"descs": c} for c in common.split_even(descs, n)]


def analyse(name: str, flags: dict[str, Any], events: list[Any], tracer: Any, g: Any,
            walk_all: list[Any], walk_nobody: list[Any], col: common.Collector,
            wit: dict[str, Any]) -> None:
    from vf.oracle import reflect
    per: dict[tuple[int, int, Any], int] = {}
    visited: set[int] = set()
    cls_of: dict[int, str] = {}
    for mid, cname, meth, nid, key in events:
        cls_of[mid] = cname
        visited.add(nid)
        m = tracer.mappers.get(mid)
        d = discipline(m) if m is not None else "uncached"
        if d == "uncached":
            continue
        k = (mid, nid, key if d == "once" else None)
        per[k] = per.get(k, 0) + 1
    col.count("mon.once_oracle")
    over = {k: v for k, v in per.items() if v > 1}
    if over and not flags.get("context_mapper"):
        (mid, nid, key), cnt = max(over.items(), key=lambda kv: kv[1])
        node = next((n for n in tracer.keep if id(n) == nid), None)
        col.violation(f"C13:visited-more-than-once:{name}:{cls_of.get(mid)}:"
                      f"{type(node).__name__ if node is not None else '?'}",
                      f"{cls_of.get(mid)} invoked its per-node method {cnt}x for one "
                      f"{type(node).__name__} ({len(over)} node(s) affected) in {name}", wit)
    if flags.get("pairwise") or flags.get("no_reach"):
        return
    col.count("mon.reach_oracle")
    want = walk_nobody if flags.get("skip_bodies") else walk_all
    missing = [n for n in want if id(n) not in visited
               and not (flags.get("no_root") and n is g)]
    if missing:
        # which edge leads to the missed node?
        miss_ids = {id(n) for n in missing}
        kinds = sorted({f"{type(p).__name__}.{reflect.edge_kind(path)}"
                        for p, path, c in reflect.all_edges(
                            g, skip_kinds=reflect.MAPPER_INVISIBLE) if id(c) in miss_ids
                        and id(p) in visited})
        col.violation(f"C13:child-not-reached:{name}:{','.join(kinds[:6]) or 'root'}",
                      f"{name} never visits {len(missing)} node(s) the reflective walk finds "
                      f"(e.g. {type(missing[0]).__name__}) -- edges from visited nodes: {kinds}",
                      wit)


def check_graph(desc: dict[str, Any], col: common.Collector, apps: list[Any], tracer: Any
                ) -> None:
    import pytato as pt
    from pytato.function import Call
    from pytato.distributed.nodes import DistributedRecv, DistributedSendRefHolder
    from vf.monitors.maptrace import BudgetExceeded
    from vf.oracle import reflect
    g0 = graphs.build(desc)
    g = reflect.hashcons(g0)
    walk_all = reflect.walk(g, enter_functions=True, skip_kinds=reflect.MAPPER_INVISIBLE)
    walk_nobody = reflect.walk(g, enter_functions=False,
                               skip_kinds=reflect.MAPPER_INVISIBLE)
    has_calls = any(isinstance(n, Call) for n in walk_all)
    has_dist = any(isinstance(n, (DistributedRecv, DistributedSendRefHolder)) for n in walk_all)
    indeg: dict[int, int] = {}
    for p, _path, c in reflect.all_edges(g, skip_kinds=reflect.MAPPER_INVISIBLE):
        indeg[id(c)] = indeg.get(id(c), 0) + 1
    shared = max(indeg.values(), default=0) >= 2
    bufs = [id(n.data) for n in walk_all if isinstance(n, pt.DataWrapper)]
    shared_buffers = len(set(bufs)) != len(bufs)     # merging them is the function's job
    budget = 64 * len(walk_all) * 4 + 10 ** 4
    for name, fn, flags in apps:
        if flags.get("no_calls") and has_calls:
            continue
        wit = {"desc": desc, "application": name}
        _TAGGER_CALLS.clear()
        tracer.start(budget)
        try:
            res = fn(g)
            err = None
        except BudgetExceeded as e:
            res, err = None, e
        except Exception as e:  # noqa: BLE001
            res, err = None, e
        events = tracer.stop()
        col.count("mon.applications")
        col.count("mon.events", len(events))
        if isinstance(err, BudgetExceeded):
            col.violation(f"C13:exponential-retraversal:{name}",
                          f"{name} produced more than {budget} mapper events on a graph of "
                          f"{len(walk_all)} nodes", wit)
            continue
        if err is not None:
            col.histo("application_raises", f"{name}:{type(err).__name__}:"
                      f"{common.norm_msg(str(err), 40)}")
            continue
        analyse(name, flags, events, tracer, g, walk_all, walk_nobody, col, wit)
        if flags.get("fn_calls"):
            col.count("mon.fn_call_oracle")
            cnt: dict[int, int] = {}
            for x in _TAGGER_CALLS:
                cnt[id(x)] = cnt.get(id(x), 0) + 1
            bad = [n for n in walk_all if cnt.get(id(n), 0) != 1]
            if bad:
                col.violation(f"C13:map-fn-not-once:{name}:{type(bad[0]).__name__}",
                              f"{name} applied the user function {cnt.get(id(bad[0]), 0)}x to one "
                              f"{type(bad[0]).__name__} ({len(bad)} node(s) affected)", wit)
        if flags.get("transform") and res is not None:
            col.count("mon.identity_oracle")
            if flags.get("identity") and res is not g and not (
                    name == "deduplicate_data_wrappers" and shared_buffers):
                col.violation(f"C13:identity-not-preserved:{name}",
                              f"{name} changes nothing on this duplicate-free graph but does "
                              "not return its argument", wit)
            if isinstance(res, (pt.Array, pt.AbstractResultWithNamedArrays)):
                if flags.get("no_shape"):
                    n_in = len(reflect.walk(g, skip_kinds=("shape", "slice_bound")))
                    n_out = len(reflect.walk(res, skip_kinds=("shape", "slice_bound")))
                else:
                    n_in = len(walk_all)
                    n_out = len(reflect.walk(res, skip_kinds=reflect.MAPPER_INVISIBLE))
                if n_out > n_in and not flags.get("may_grow"):
                    col.violation(f"C13:more-distinct-nodes:{name}",
                                  f"{name}: result has {n_out} distinct nodes, input {n_in}", wit)
                if reflect.duplicate_groups(res, reflect.MAPPER_INVISIBLE) > 0 \
                        and not flags.get("may_grow"):
                    col.violation(f"C13:sharing-lost:{name}",
                                  f"{name}: result contains structurally equal distinct nodes "
                                  "(uses of one shared node were mapped to different objects)",
                                  wit)
        col.case(common.stable_hash([desc, name]), shared,
                 {"graph": desc, "application": name, "nodes": len(walk_all),
                  "events": len(events)})
    # (3b) a CopyMapper-based transformation that changes exactly ONE node: every use of it
    # -- through whatever kind of edge -- must see the new node, nothing else may change
    from pytato import transform as tr
    from vf.vtags import VTag
    rng1 = common.rng_for(desc["seed"], "tagone")
    cands = [n for n in walk_nobody if isinstance(n, pt.Array)
             and not isinstance(n, pt.NamedArray) and indeg.get(id(n), 0) >= 1]
    for chosen in rng1.sample(cands, min(4, len(cands))):
        kinds_in = sorted({reflect.edge_kind(path) for p_, path, c in reflect.all_edges(
            g, enter_functions=False, skip_kinds=reflect.MAPPER_INVISIBLE) if c is chosen})
        wit = {"desc": desc, "application": "map_and_copy(tag-one)",
               "chosen": type(chosen).__name__, "edges": kinds_in}

        def fn1(x: Any, _c: Any = chosen) -> Any:
            return x.tagged(VTag(4711)) if x is _c else x
        try:
            res1 = tr.map_and_copy(g, fn1)
        except Exception as e:  # noqa: BLE001
            col.histo("application_raises", f"map_and_copy(tag-one):{type(e).__name__}:"
                      f"{common.norm_msg(str(e), 40)}")
            continue
        col.count("mon.single_change_oracle")
        after = reflect.walk(res1, enter_functions=False, skip_kinds=reflect.MAPPER_INVISIBLE)
        if any(n is chosen for n in after):
            stale = sorted({f"{type(p_).__name__}.{reflect.edge_kind(path)}"
                            for p_, path, c in reflect.all_edges(
                                res1, enter_functions=False,
                                skip_kinds=reflect.MAPPER_INVISIBLE) if c is chosen})
            col.violation(f"C13:stale-use-after-single-change:{','.join(stale)[:80]}",
                          f"after replacing one {type(chosen).__name__} the result still uses "
                          f"the old node through {stale}: uses of one shared node were mapped "
                          "to different results", wit)
        elif len(after) != len(walk_nobody):
            col.violation("C13:single-change-alters-node-count",
                          f"{len(walk_nobody)} nodes before, {len(after)} after replacing one "
                          "node", wit)
    # (3c) a transformation that makes one node EQUAL to another existing node: the two must
    # become one object whichever of them the mapper meets first
    if isinstance(g, pt.DictOfNamedArrays):
        rng2 = common.rng_for(desc["seed"], "merge")
        cands2 = [n for n in cands if type(n).__name__ != "DataWrapper" and n.dtype.kind in "iufc"
                  and all(isinstance(d_, int) for d_ in n.shape)]
        for y_ in rng2.sample(cands2, min(3, len(cands2))):
            first = rng2.random() < 0.6
            swap = rng2.random() < 0.5
            wit = {"desc": desc, "application": "map_and_copy(untag-to-equal)",
                   "chosen": type(y_).__name__, "pair_first": first}
            try:
                x_ = y_.tagged(VTag(4712))
                pair = (x_ + y_) if swap else (y_ + x_)
                data = dict(g._data)
                data = {"vf_pair": pair, **data} if first else {**data, "vf_pair": pair}
                g2 = pt.make_dict_of_named_arrays(data)
                if reflect.duplicate_groups(g2, reflect.MAPPER_INVISIBLE) > 0:
                    continue

                def fn3(x: Any) -> Any:
                    if isinstance(x, pt.Array) and VTag(4712) in x.tags:
                        return x.without_tags(VTag(4712))
                    return x
                res3 = tr.map_and_copy(g2, fn3)
            except Exception as e:  # noqa: BLE001
                col.histo("application_raises", f"map_and_copy(untag):{type(e).__name__}:"
                          f"{common.norm_msg(str(e), 40)}")
                continue
            col.count("mon.merge_oracle")
            if reflect.duplicate_groups(res3, reflect.MAPPER_INVISIBLE) > 0:
                col.violation("C13:equal-results-not-unified:map_and_copy(untag)",
                              "a node rewritten to something equal to an untouched node of the "
                              "same graph stays a second object (a duplicate-free input gives "
                              "an output with duplicates; depends on which one is met first)", wit)
    # (4) collision reporting and deduplicate on graphs WITH duplicates
    victims = [n for n in walk_nobody if indeg.get(id(n), 0) >= 1
               and isinstance(n, pt.Array) and not isinstance(n, (pt.NamedArray,))
               and type(n).__name__ not in ("DataWrapper",)]
    if victims:
        rng = common.rng_for(desc["seed"], "dup")
        v = rng.choice(victims)
        twin = reflect.clone_node(v)
        # replace ONE use of v by the twin
        used = [False]

        visible = {id(n) for n in walk_nobody}

        def fn2(n: Any, vals: dict[str, Any]) -> Any:
            # (only a use that mappers can see: not inside a normalised slice bound)
            if not used[0] and id(n) in visible:
                for k, val in vals.items():
                    if k == "indices":
                        continue
                    if val is v:
                        vals[k] = twin
                        used[0] = True
                        return reflect._construct_like(n, vals)
                    if isinstance(val, tuple) and any(x is v for x in val):
                        j = [x is v for x in val].index(True)
                        vals[k] = (*val[:j], twin, *val[j + 1:])
                        used[0] = True
                        return reflect._construct_like(n, vals)
            return None
        try:
            gd = reflect.rebuild(g, fn2)
        except Exception:  # noqa: BLE001
            gd = None
        if gd is None or not used[0] or not any(
                n is v for n in reflect.walk(gd, skip_kinds=reflect.MAPPER_INVISIBLE)):
            # v had a single use: put the node and its twin side by side under one root
            try:
                gd = pt.make_dict_of_named_arrays({"vf_orig": v, "vf_twin": twin})
                used[0] = True
            except Exception:  # noqa: BLE001
                gd = None
        if gd is not None and used[0] and reflect.duplicate_groups(gd) > 0 and \
                any(n is v for n in reflect.walk(gd, skip_kinds=reflect.MAPPER_INVISIBLE)) and \
                any(n is twin for n in reflect.walk(gd, skip_kinds=reflect.MAPPER_INVISIBLE)):
            from pytato import transform as tr
            col.count("mon.collision_oracle")
            wit = {"desc": desc, "duplicated": type(v).__name__}
            checking = {
                "CopyMapper": lambda: tr.CopyMapper()(gd),
                "map_and_copy": lambda: tr.map_and_copy(gd, lambda t_: t_),
                "InputGatherer": lambda: tr.InputGatherer()(gd),
                "DependencyMapper": lambda: tr.DependencyMapper()(gd),
            }
            for mname, run_ in checking.items():
                try:
                    run_()
                    col.violation(f"C13:collision-hidden:{mname}:{type(v).__name__}",
                                  "a graph with two structurally equal distinct nodes went "
                                  f"through {mname} (a collision-checking mapper) without the "
                                  "cache-collision error", wit)
                except ValueError as e:
                    if "collision" not in str(e) and "duplicate" not in str(e):
                        col.violation(f"C13:collision-wrong-error:{mname}:{type(e).__name__}",
                                      str(e)[:120], wit)
                except Exception as e:  # noqa: BLE001
                    if not (mname != "CopyMapper" and isinstance(e, NotImplementedError)):
                        col.violation(f"C13:collision-wrong-error:{mname}:{type(e).__name__}",
                                      str(e)[:120], wit)
            try:
                dd = tr.deduplicate(gd)
                if reflect.duplicate_groups(dd, reflect.MAPPER_INVISIBLE) > 0:
                    col.violation(f"C13:deduplicate-leaves-duplicates:{type(v).__name__}",
                                  "deduplicate returned a graph that still contains structurally "
                                  "equal distinct nodes", wit)
                if len(reflect.walk(dd, skip_kinds=reflect.MAPPER_INVISIBLE)) > \
                        len(reflect.walk(gd, skip_kinds=reflect.MAPPER_INVISIBLE)) - 1:
                    col.violation("C13:deduplicate-grows", "deduplicate did not merge the twin",
                                  wit)
            except Exception as e:  # noqa: BLE001
                col.violation(f"C13:deduplicate-raises:{type(e).__name__}@{common.exc_site(e)}",
                              f"deduplicate raised on a graph with duplicates: {str(e)[:120]}",
                              wit)
    del has_dist


def run_shard(shard: dict[str, Any], col: common.Collector) -> None:
    from vf.monitors import maptrace
    tracer = maptrace.install()
    col.count("wrapped_methods", tracer.n_wrapped)
    col.count("wrapped_classes", len(tracer.classes))
    apps = applications()
    for desc in shard["descs"]:
        try:
            with common.time_limit(180):
                check_graph(desc, col, apps, tracer)
        except common.Timeout:
            tracer.active = False
            col.count("graph_timeouts")
        except Exception as e:  # noqa: BLE001
            import traceback
            tracer.active = False
            col.violation(f"C13:harness-exception:{type(e).__name__}@"
                          f"{common.exc_site(e, ('vf',))}",
                          f"unexpected {type(e).__name__}: {str(e)[:200]}",
                          {"desc": desc, "tb": traceback.format_exc()[-1500:]})


def replay(witness: dict[str, Any], col: common.Collector) -> None:
    from vf.monitors import maptrace
    tracer = maptrace.install()
    check_graph(witness["desc"], col, applications(), tracer)
