"""C16 -- symbolic shapes: decisions are sound and one kernel serves every size.

(a) ``are_shape_components_equal`` (and the derived are_shapes_equal, broadcasting,
    stack / einsum / call acceptance) for pairs of affine expressions over 1-3 size
    parameters, coefficients in [-3,3], written in varied syntactic forms; oracle:
    two affine functions agree on all of N^d iff they agree on the grid {0,1,2}^d.
(b) ``.shape`` of every node of symbolic programs evaluated at a valuation vs the
    NumPy shadow's concrete shape.
(c) outputs of ONE compiled kernel across all valuations vs the shadow.
"""
from __future__ import annotations

import itertools
import signal
from typing import Any

import numpy as np

from vf import common
from vf.gen import symgen
from vf.gen import progspec as ps

LEVEL = "exploration"
RULE = ("(a) affine pairs: all coefficient tuples for d=1, sampled (thorough: complete) for "
        "d=2, sampled for d=3, each in 2 random syntactic forms and both argument orders; "
        "(b,c) symbolic programs at every valuation 1..6 (0 included; d=3 sampled); distinct by "
        "pair / (spec, valuation); non-trivial (a) = the two expressions differ syntactically, "
        "(b,c) = program has >= 2 nodes and the valuation is not all-ones")
ASSUMPTIONS = [
    "an affine function over N^d is determined by its values on {0,1}^d subset of {0,1,2}^d",
    "as C01 for executing the compiled kernel",
]
MIN_MONITOR = {"mon.equality_decisions": 500, "mon.acceptance_decisions": 100,
               "mon.shape_oracle": 100, "mon.value_oracle": 100}
SHARD_TIMEOUT = {"quick": 900, "thorough": 7200}
N_PAIRS = {"quick": 6000, "thorough": 120000}
N_PROGRAMS = {"quick": 260, "thorough": 6000}
PARAMS = ["n", "m", "k"]


_Timeout = common.Timeout


def plan(tier: str, seed: int) -> list[dict[str, Any]]:
    rng = common.rng_for(seed, "c16")
    pairs: list[dict[str, Any]] = []
    R = range(-3, 4)
    # d = 1 complete: (a n + b) vs (c n + d)
    for a, b, c, d in itertools.product(R, R, R, R):
        pairs.append({"d": 1, "e1": [a, b], "e2": [c, d]})
    want = N_PAIRS[tier]
    all2 = None
    if tier == "thorough":
        all2 = list(itertools.product(R, repeat=6))
        rng.shuffle(all2)
        for t in all2[:60000]:
            pairs.append({"d": 2, "e1": list(t[:3]), "e2": list(t[3:])})
    while len(pairs) < want:
        d = rng.choice([2, 2, 3])
        e1 = [rng.choice(R) for _ in range(d + 1)]
        # bias towards equal / nearly equal pairs
        r = rng.random()
        if r < 0.35:
            e2 = list(e1)
        elif r < 0.6:
            e2 = list(e1)
            e2[rng.randrange(d + 1)] += rng.choice([-1, 1])
        else:
            e2 = [rng.choice(R) for _ in range(d + 1)]
        pairs.append({"d": d, "e1": e1, "e2": e2})
    for i, p in enumerate(pairs):
        p["kind"] = "pair"
        p["fseed"] = common.sub_seed(seed, "form", i) & 0xFFFFFF
    cases = pairs
    for i in range(N_PROGRAMS[tier]):
        cases.append({"kind": "program", "seed": common.sub_seed(seed, "c16p", i) & 0x7FFFFFFF})
    rng.shuffle(cases)
    return [{"cases": c} for c in common.split_even(cases, common.NCPU * (1 if tier == "quick"
                                                                          else 4))]


# ---------------------------------------------------------------------------
# (a)


def build_form(coefs: list[int], sps: list[Any], rng: Any) -> Any:
    """An expression equal to sum(c_i * p_i) + c0 in a random syntactic form."""
    d = len(coefs) - 1
    terms: list[Any] = []
    for c, p in zip(coefs[:d], sps):
        if c == 0:
            if rng.random() < 0.2:
                terms.append(p - p)                       # redundant
            continue
        r = rng.random()
        if r < 0.4:
            terms.append(c * p)
        elif r < 0.6:
            terms.append(p * c)
        elif r < 0.8 and abs(c) >= 2:
            t = p
            for _ in range(abs(c) - 1):
                t = t + p                                 # n + n + n
            terms.append(t if c > 0 else -1 * t)
        else:
            terms.append((c + 1) * p - p)
    c0 = coefs[d]
    if not terms and sps and rng.random() < 0.5:
        # a constant written with a parameter that cancels: (p + c0) - p, identically c0
        p = rng.choice(sps)
        return (p + c0) - p if rng.random() < 0.5 else (c0 + p) - p
    if c0 != 0 or not terms or rng.random() < 0.2:
        if rng.random() < 0.3 and terms:
            terms.append(c0 + 5)
            terms.append(-5)
        else:
            terms.append(c0)
    rng.shuffle(terms)
    e = terms[0]
    for t in terms[1:]:
        e = (e + t) if rng.random() < 0.8 else (t + e)
    return e


def aff_val(coefs: list[int], pt_: tuple[int, ...]) -> int:
    return sum(c * x for c, x in zip(coefs, pt_)) + coefs[-1]


def check_pair(case: dict[str, Any], col: common.Collector) -> None:
    import pytato as pt
    from pytato.utils import are_shape_components_equal, are_shapes_equal
    d = case["d"]
    rng = common.rng_for(case["fseed"], "form")
    sps = [pt.make_size_param(p) for p in PARAMS[:d]]
    e1c, e2c = case["e1"], case["e2"]
    grid = list(itertools.product((0, 1, 2), repeat=d))
    truth = all(aff_val(e1c, g) == aff_val(e2c, g) for g in grid)
    f1 = build_form(e1c, sps, rng)
    f2 = build_form(e2c, sps, rng)
    syn_differs = True
    try:
        syn_differs = not (isinstance(f1, pt.Array) and isinstance(f2, pt.Array) and f1 is f2)
    except Exception:  # noqa: BLE001
        pass
    wit = {"case": case}
    for a, b, order in ((f1, f2, "12"), (f2, f1, "21")):
        try:
            got = bool(are_shape_components_equal(a, b))
        except Exception as e:  # noqa: BLE001
            col.violation(f"C16:equality-raises:{type(e).__name__}@{common.exc_site(e)}",
                          f"are_shape_components_equal raised {type(e).__name__}: "
                          f"{str(e)[:120]}", wit)
            continue
        col.count("mon.equality_decisions")
        if got != truth:
            col.violation("C16:equality-decision:" + ("false-positive" if got else
                                                       "false-negative"),
                          f"are_shape_components_equal says {got}, the expressions are "
                          f"{'equal' if truth else 'different'} on N^{d} (order {order})", wit)
    # derived decisions, on shapes that are admissible (non-negative on the grid)
    nonneg = all(aff_val(e1c, g) >= 0 and aff_val(e2c, g) >= 0 for g in
                 itertools.product((0, 1, 2, 5), repeat=d)) and \
        all(c >= 0 for c in e1c[:d] + e2c[:d])
    if nonneg and (isinstance(f1, pt.Array) or isinstance(f2, pt.Array)):
        # (one side may be a plain int: an integer length meeting a symbolic form)
        one1 = all(aff_val(e1c, g) == 1 for g in grid)
        one2 = all(aff_val(e2c, g) == 1 for g in grid)
        x = pt.make_placeholder("x", (f1, 3), np.float64)
        y = pt.make_placeholder("y", (f2, 3), np.float64)
        col.count("mon.acceptance_decisions")
        try:
            ok = bool(are_shapes_equal(x.shape, y.shape))
            if ok != truth:
                col.violation("C16:are_shapes_equal", f"says {ok}, truth {truth}", wit)
        except Exception as e:  # noqa: BLE001
            col.violation(f"C16:equality-raises:{type(e).__name__}@{common.exc_site(e)}",
                          str(e)[:120], wit)
        # broadcasting
        try:
            r = x + y
            acc = True
            shp0 = r.shape[0]
        except Exception as e:  # noqa: BLE001
            acc = False
            shp0 = None
            if type(e).__name__ not in ("CannotBroadcastError", "ValueError"):
                col.violation(f"C16:broadcast-raises:{type(e).__name__}@{common.exc_site(e)}",
                              str(e)[:120], wit)
        want_acc = truth or one1 or one2
        if acc != want_acc:
            col.violation("C16:broadcast-acceptance:" + ("accepts-unequal" if acc
                                                          else "rejects-equal"),
                          f"x[{e1c}] + y[{e2c}] accepted={acc}, broadcastable for all sizes="
                          f"{want_acc}", wit)
        elif acc and shp0 is not None:
            from vf.oracle import refeval
            for g in grid:
                env = dict(zip(PARAMS[:d], g))
                got = refeval.RefEval(env).dim(shp0)
                want = max(aff_val(e1c, g), aff_val(e2c, g)) if not truth else aff_val(e1c, g)
                if one1 and not truth:
                    want = aff_val(e2c, g)
                if one2 and not truth:
                    want = aff_val(e1c, g)
                if got != want:
                    col.violation("C16:broadcast-shape", f"result axis {got} != {want} at {env}",
                                  wit)
                    break
        # ... and the VALUE of the broadcast (the subscripts the lambda was given decide
        # which axis is stretched), both operand orders, at three valuations
        if acc:
            from vf.oracle import refeval
            for (aa, bb, oname) in ((x, y, "x+y"), (y, x, "y+x")):
                try:
                    rr_ = aa + bb
                except Exception:  # noqa: BLE001
                    continue
                for g in ((2,) * d, (1,) * d, (3,) + (2,) * (d - 1)):
                    n1, n2 = aff_val(e1c, g), aff_val(e2c, g)
                    if n1 < 0 or n2 < 0 or not (n1 == n2 or n1 == 1 or n2 == 1):
                        continue
                    rs = np.random.default_rng(case["fseed"] & 0xFFFF)
                    xv = rs.integers(-4, 5, size=(n1, 3)).astype(np.float64)
                    yv = rs.integers(-4, 5, size=(n2, 3)).astype(np.float64)
                    env = dict(zip(PARAMS[:d], g))
                    env.update({"x": xv, "y": yv})
                    col.count("mon.broadcast_values")
                    try:
                        gotv = np.asarray(refeval.RefEval(env)(rr_))
                    except Exception as e:  # noqa: BLE001
                        col.violation(f"C16:broadcast-value-unevaluable:{type(e).__name__}",
                                      f"{oname} at {dict(zip(PARAMS[:d], g))}: {str(e)[:100]}",
                                      wit)
                        break
                    if gotv.shape != (xv + yv).shape or not np.array_equal(gotv, xv + yv):
                        col.violation("C16:broadcast-value",
                                      f"{oname} with first axes {e1c} / {e2c} at "
                                      f"{dict(zip(PARAMS[:d], g))}: the lambda's value differs "
                                      "from NumPy's broadcast", wit)
                        break
        # an integer index into the symbolic axis: accepted only if it is within bounds for
        # EVERY admissible size (sign reasoning over n >= 0, n = 0 included)
        if isinstance(f1, pt.Array):
            for i in (-3, -2, -1, 0, 1, 2):
                col.count("mon.index_decisions")
                try:
                    x[i]
                except Exception:  # noqa: BLE001  (refusing is always sound)
                    continue
                bad = [g for g in itertools.product((0, 1, 2, 5), repeat=d)
                       if not (-aff_val(e1c, g) <= i < aff_val(e1c, g))]
                if bad:
                    col.violation("C16:index-acceptance:out-of-bounds-at-admissible-size",
                                  f"x[{i}] on an axis of length {e1c} is accepted, but at sizes "
                                  f"{dict(zip(PARAMS[:d], bad[0]))} the axis has length "
                                  f"{aff_val(e1c, bad[0])} (NumPy: IndexError)", wit)
                    break
        # shapes of unequal rank are never equal, whatever their common prefix
        col.count("mon.acceptance_decisions")
        z = pt.make_placeholder("z", (f1,), np.float64)
        for s1, s2 in ((x.shape, z.shape), (z.shape, x.shape), ((), z.shape), (z.shape, ())):
            try:
                if are_shapes_equal(s1, s2):
                    col.violation("C16:are_shapes_equal:unequal-rank",
                                  f"shapes of rank {len(s1)} and {len(s2)} declared equal", wit)
                    break
            except Exception as e:  # noqa: BLE001
                col.violation(f"C16:equality-raises:{type(e).__name__}@{common.exc_site(e)}",
                              str(e)[:120], wit)
                break
        try:
            pt.stack([z, x])
            col.violation("C16:stack-acceptance:unequal-rank",
                          "pt.stack accepts operands of rank 1 and 2", wit)
        except Exception:  # noqa: BLE001
            pass
        # stack
        col.count("mon.acceptance_decisions")
        try:
            pt.stack([x, y])
            acc = True
        except ValueError:
            acc = False
        except Exception as e:  # noqa: BLE001
            acc = False
            col.violation(f"C16:stack-raises:{type(e).__name__}", str(e)[:120], wit)
        if acc != truth:
            col.violation("C16:stack-acceptance:" + ("accepts-unequal" if acc
                                                      else "rejects-equal"),
                          f"pt.stack of shapes ({e1c},3) and ({e2c},3): accepted={acc}, "
                          f"equal={truth}", wit)
        # einsum axis matching
        col.count("mon.acceptance_decisions")
        try:
            pt.einsum("ij,ij->j", x, y)
            acc = True
        except ValueError:
            acc = False
        except Exception as e:  # noqa: BLE001
            acc = False
            col.violation(f"C16:einsum-raises:{type(e).__name__}@{common.exc_site(e)}",
                          str(e)[:120], wit)
        if acc != want_acc:
            col.violation("C16:einsum-acceptance:" + ("accepts-unequal" if acc
                                                       else "rejects-equal"),
                          f"einsum over axes of length {e1c} and {e2c}: accepted={acc}, "
                          f"compatible={want_acc}", wit)
        # call argument checking
        col.count("mon.acceptance_decisions")
        try:
            def f(a: Any) -> Any:
                return a * 2
            from pytato.function import trace_call
            res = trace_call(f, x)
            fd = res.call.function if hasattr(res, "call") else res._container.function
            try:
                fd(**{next(iter(fd.parameters)): y})
                acc = True
            except ValueError:
                acc = False
            if acc != truth:
                col.violation("C16:call-acceptance:" + ("accepts-unequal" if acc
                                                         else "rejects-equal"),
                              f"calling a function traced for shape ({e1c},3) with ({e2c},3): "
                              f"accepted={acc}, equal={truth}", wit)
        except Exception as e:  # noqa: BLE001
            col.histo("call_check_unavailable", type(e).__name__)
    col.case(common.stable_hash([e1c, e2c, d, case["fseed"]]), syn_differs and e1c != [0] * (d + 1),
             {"d": d, "e1": e1c, "e2": e2c, "truth": truth,
              "forms": [repr(f1)[:80], repr(f2)[:80]]})


# ---------------------------------------------------------------------------
# (b), (c)


def check_program(case: dict[str, Any], col: common.Collector) -> None:
    import pytato as pt
    from vf.exec import ctarget
    from vf.oracle import compare, refeval
    spec = case.get("spec") or symgen.generate(case["seed"], c16_only=True)
    wit0 = {"spec": spec}
    try:
        sb = symgen.SymBuild(spec)
    except NotImplementedError as e:
        col.histo("symbolic_not_supported", common.norm_msg(str(e), 50))
        col.case()
        return
    except Exception as e:  # noqa: BLE001
        key = f"C16:construction:{type(e).__name__}@{common.exc_site(e)}:" \
              f"{common.norm_msg(str(e), 40)}"
        col.violation(key, "building a symbolic-shape program that NumPy accepts at every "
                      f"valuation raised {type(e).__name__}: {str(e)[:140]}", wit0)
        col.case()
        return
    params = spec["params"]
    grid = list(itertools.product(range(0, 7), repeat=len(params)))
    if "valuation" in case:
        grid = [tuple(case["valuation"][p] for p in params)]
    elif len(grid) > 60:
        rng = common.rng_for(spec["vseed"], "grid")
        grid = rng.sample(grid, 60)
    # (b) shapes of every node
    for g in grid[:12]:
        val = dict(zip(params, g))
        conc = symgen.instantiate(spec, val)
        sh = ps.Shadow(conc, 0)
        rev = refeval.RefEval(dict(val))
        for nid, node in sb.nodes.items():
            if not isinstance(node, pt.Array):
                continue
            col.count("mon.shape_oracle")
            try:
                got = rev.shape(node.shape)
            except Exception as e:  # noqa: BLE001
                col.violation(f"C16:shape-unevaluable:{type(e).__name__}",
                              f"shape of node {nid} cannot be evaluated: {str(e)[:100]}",
                              {**wit0, "valuation": val, "node": nid})
                continue
            want = np.asarray(sh.vals[nid]).shape
            if got != want:
                op = next((n["op"] for n in spec["nodes"] if n["id"] == nid), "input")
                col.violation(f"C16:inferred-shape:{op}", f"node {nid} ({op}) declares shape "
                              f"{got} at {val}, NumPy gives {want}",
                              {**wit0, "valuation": val, "node": nid})
    # (c) one kernel, all sizes
    try:
        dag = pt.transform.deduplicate(pt.make_dict_of_named_arrays(sb.outputs()))
        bp = ctarget.generate(dag)
        cp = ctarget.compile_program(bp)
    except ctarget.CodegenFailure as f:
        ops = sorted({n["op"] for n in spec["nodes"]})
        site = common.exc_site(f.exc) if f.exc is not None else "gcc"
        col.violation(f"C16:codegen:{f.stage}:{type(f.exc).__name__ if f.exc else 'gcc'}@{site}",
                      "code generation fails for a symbolic-shape program: "
                      f"{str(f.exc)[:140] if f.exc else f.detail[-200:]}", {**wit0, "ops": ops})
        col.case()
        return
    col.count("mon.programs_compiled")
    from vf.checks.c01 import trusted_base_signatures
    tb = trusted_base_signatures(bp.program)
    if tb:
        # the kernel contains a construct loopy's C printer mistranslates (DESIGN.md §8):
        # values of the binary say nothing about pytato
        col.histo("trusted_base_skipped", "+".join(sorted(tb)))
        col.case()
        return
    knl = bp.program.default_entrypoint
    shash = common.stable_hash(spec)
    for g in grid:
        val = dict(zip(params, g))
        conc = symgen.instantiate(spec, val)
        ref, spread, fragile, _p = ps.reference(conc, 0)
        if fragile:
            col.count("skipped_fragile")
            continue
        iv = ps.input_values(conc, 0)
        env: dict[str, Any] = {i["name"]: iv[i["id"]] for i in conc["inputs"]}
        env.update(val)
        env = {k: v for k, v in env.items() if k in knl.arg_dict}
        try:
            rr = ctarget.run(cp, bp, env)
        except ctarget.KernelContractError as e:
            col.violation("C16:kernel-interface", str(e)[:160], {**wit0, "valuation": val})
            continue
        for name, got in rr.outputs.items():
            col.count("mon.value_oracle")
            with np.errstate(all="ignore"):
                want = ref[name].astype(got.dtype)
            if got.shape != want.shape:
                col.violation("C16:output-shape", f"{name}: kernel {got.shape} vs NumPy "
                              f"{want.shape} at {val}", {**wit0, "valuation": val})
            elif not compare.close_ulps(got, want, 16.0, err=8.0 * spread[name]):
                # is the deviation specific to the SYMBOLIC kernel?  The same program with
                # these sizes written as integers is C01's business.
                try:
                    bc = ps.PtBuild(conc)
                    bpc = ctarget.generate(pt.transform.deduplicate(
                        pt.make_dict_of_named_arrays(bc.outputs())))
                    rc = ctarget.run(ctarget.compile_program(bpc), bpc, bc.env(0))
                    gc = rc.outputs[name]
                    if gc.shape == got.shape and compare.close_ulps(got, gc, 4.0):
                        col.histo("deviation_shared_with_static_kernel", name[:3])
                        continue
                except Exception:  # noqa: BLE001
                    pass
                col.violation("C16:value", f"output {name} differs from NumPy at sizes {val} "
                              "(same compiled kernel)",
                              {**wit0, "valuation": val,
                               "diff": compare.describe_diff(got, want)})
        col.case(common.stable_hash([shash, val]),
                 len(spec["nodes"]) >= 2 and any(v != 1 for v in g),
                 {"params": params, "valuation": val, "ops": ps.node_kinds(spec),
                  "input_shapes": [i["shape"] for i in spec["inputs"]]})


def finalize(case: dict[str, Any], tmp: common.Collector, col: common.Collector) -> None:
    """Shrink symbolic specs of program violations; key by the minimal spec's ops."""
    from vf.gen import shrink
    done: set[str] = set()
    for v in tmp.violations:
        coarse = v["key"]
        if coarse in done:
            continue
        done.add(coarse)
        w = v["witness"]
        spec = w.get("spec") if isinstance(w, dict) else None
        if spec is None:
            col.violation(coarse, v["what"], w)
            continue

        def fails(s: dict[str, Any]) -> bool:
            c2 = common.Collector()
            try:
                cc = {"kind": "program", "spec": s}
                if "valuation" in w:
                    cc["valuation"] = w["valuation"]
                check_program(cc, c2)
            except Exception:  # noqa: BLE001
                return False
            return any(x["key"] == coarse for x in c2.violations)
        try:
            small = sym_shrink(spec, fails)
        except Exception:  # noqa: BLE001
            small = spec
        ops = small["nodes"][-1]["op"] if small["nodes"] else "<inputs>"
        symax = "sym" if any(not isinstance(x, int) for i in small["inputs"]
                             for x in i["shape"]) else "static"
        w2 = dict(w)
        w2["spec"] = small
        col.violation(f"{coarse}:{ops}:{symax}", v["what"], w2)
        del shrink


def sym_shrink(spec: dict[str, Any], fails: Any) -> dict[str, Any]:
    """Drop outputs / unreachable nodes; move the output towards the inputs."""
    import copy
    from vf.gen.shrink import prune
    cur = prune(spec)
    cur["params"] = spec["params"]
    if not fails(cur):
        return spec
    changed = True
    while changed:
        changed = False
        if len(cur["outputs"]) > 1:
            for k in list(cur["outputs"]):
                cand = copy.deepcopy(cur)
                cand["outputs"] = {k: cur["outputs"][k]}
                cand = prune(cand)
                cand["params"] = spec["params"]
                if fails(cand):
                    cur, changed = cand, True
                    break
        if changed:
            continue
        byid = {n["id"]: n for n in cur["nodes"]}
        for k, oid in list(cur["outputs"].items()):
            if oid in byid:
                for a in byid[oid]["args"]:
                    if ps.is_ref(a) and a in byid:
                        cand = copy.deepcopy(cur)
                        cand["outputs"] = {k: a}
                        cand = prune(cand)
                        cand["params"] = spec["params"]
                        if fails(cand):
                            cur, changed = cand, True
                            break
            if changed:
                break
    return cur


def check_case(case: dict[str, Any], col: common.Collector) -> None:
    if case.get("kind") == "pair":
        check_pair(case, col)
        return
    tmp = common.Collector()
    check_program(case, tmp)
    col.evaluations += tmp.evaluations
    col.nontrivial |= tmp.nontrivial
    col.disjoint_nontrivial += tmp.disjoint_nontrivial
    for s in tmp.samples:
        if len(col.samples) < col.MAX_SAMPLES:
            col.samples.append(s)
    for k, v in tmp.counters.items():
        col.count(k, v)
    for t, d in tmp.hist.items():
        for k, v in d.items():
            col.histo(t, k, v)
    if tmp.violations:
        finalize(case, tmp, col)


def run_shard(shard: dict[str, Any], col: common.Collector) -> None:
    for case in shard["cases"]:
        try:
            with common.time_limit(300):
                check_case(case, col)
        except common.Timeout:
            col.count("program_timeouts")
        except Exception as e:  # noqa: BLE001
            import traceback
            col.violation(f"C16:harness-exception:{type(e).__name__}@"
                          f"{common.exc_site(e, ('vf',))}",
                          f"unexpected {type(e).__name__}: {str(e)[:200]}",
                          {"case": case, "tb": traceback.format_exc()[-2000:]})
        finally:
            pass


def replay(witness: dict[str, Any], col: common.Collector) -> None:
    if "spec" in witness:
        c: dict[str, Any] = {"kind": "program", "spec": witness["spec"]}
        if "valuation" in witness:
            c["valuation"] = witness["valuation"]
        check_case(c, col)
    else:
        check_case(witness["case"], col)
