"""C15 -- names in generated code are faithful, unique and collision-free.

Events (from the unprocessed BoundProgram.program and from execution): argument
names/dtypes/shapes, temporaries, inames, substitution-rule names, bound_arguments,
result keys, exceptions (NameClashError, ValueError for Named), output values with
pairwise-distinct inputs.
Adversary: user names are drawn from the names the generator itself produced in a
first code generation pass of the same program (fed back), names within edit
distance 1 of them, and a fixed list of near-reserved names.
"""
from __future__ import annotations

import re
import signal
from typing import Any

import numpy as np

from vf import common
from vf.gen import proggen
from vf.gen import progspec as ps

LEVEL = "exploration"
RULE = ("C01 programs x naming scenarios (feedback: user names taken from / one edit away from "
        "the names a first codegen pass produced; near-reserved fixed names; output keys equal "
        "to input names; Named/PrefixNamed equal to other names; reserved-pattern names; two "
        "distinct inputs with one name); distinct by (spec hash, naming); non-trivial = at "
        "least one user name equals or is within edit distance 1 of a generated name")
ASSUMPTIONS = [
    "as C01 for the value oracle",
    "reserved patterns are those of doc/design.rst: _pt_*, _[0-9]+, _r[0-9]+, _in[0-9]+",
    "for user-chosen names that collide with each other (output key == name of a different "
    "input) or that lie in a reserved region, either a raised error or correct values is "
    "accepted; silent aliasing (wrong values) is the violation",
]
MIN_MONITOR = {"mon.name_oracle": 50, "mon.value_oracle": 50, "mon.clash_oracle": 10}
SHARD_TIMEOUT = {"quick": 900, "thorough": 7200}
N_PROGRAMS = {"quick": 700, "thorough": 15000}
OPTS = {"dw_prob": 0.3}

RESERVED = re.compile(r"^(_pt_.*|_[0-9]+|_r[0-9]+|_in[0-9]+)$")
FIXED = ["pt_temp", "temp_0", "x_dim0", "acc_x", "_temp", "pt_data", "_ptt", "out", "_pt", "in0",
         "r0", "dim0", "acc", "n", "i", "tmp", "__pt_temp", "pt_out", "_ptout", "x_offset",
         # names that only START like the reserved index variables _0, _1, ...
         "_0th", "_1x", "_2_n", "_12abc", "_0_"]
RESERVED_SAMPLES = ["_pt_temp", "_pt_temp_0", "_pt_data", "_pt_data_0", "_pt_out", "_pt_in",
                    "_0", "_1", "_r0", "_in0", "_in1", "_pt_sum_r0", "_pt_subst"]


_Timeout = common.Timeout


def plan(tier: str, seed: int) -> list[dict[str, Any]]:
    n = N_PROGRAMS[tier]
    profiles = ["mixed", "reduce", "index", "einsum", "elementwise"]
    scen = ["feedback", "feedback", "feedback", "outkeys", "reserved", "clash", "named",
            "dwnamed"]
    cases = [{"seed": common.sub_seed(seed, "c15", i) & 0x7FFFFFFF,
              "profile": profiles[i % len(profiles)], "scenario": scen[i % len(scen)]}
             for i in range(n)]
    return [{"cases": c, "idx": i} for i, c in enumerate(
        common.split_even(cases, common.NCPU * (1 if tier == "quick" else 4)))]


def edits(name: str, rng: Any) -> list[str]:
    out = []
    if len(name) > 1:
        j = rng.randrange(len(name))
        out.append(name[:j] + name[j + 1:])                       # deletion
    j = rng.randrange(len(name) + 1)
    out.append(name[:j] + rng.choice("_0x1a") + name[j:])          # insertion
    j = rng.randrange(len(name))
    out.append(name[:j] + rng.choice("_0x1z") + name[j + 1:])      # substitution
    m = re.match(r"^(.*?)(\d+)$", name)
    if m:
        out.append(m.group(1) + str(int(m.group(2)) + 1))           # numeric suffix +1
    else:
        out.append(name + "_0")
    return [o for o in out if o.isidentifier()]


def kernel_names(bp: Any, processed: Any = None) -> dict[str, set[str]]:
    knl = bp.program.default_entrypoint
    d = {"args": {a.name for a in knl.args}, "temps": set(knl.temporary_variables),
         "inames": set(knl.all_inames()), "substs": set(knl.substitutions)}
    if processed is not None:
        pk = processed.default_entrypoint
        d["processed"] = ({a.name for a in pk.args} | set(pk.temporary_variables)
                          | set(pk.all_inames()))
    return d


def first_pass(spec: dict[str, Any], stored: dict[str, list[list[Any]]]) -> set[str] | None:
    import pytato as pt
    from vf.checks.c07 import make_post
    from vf.exec import ctarget
    try:
        b = ps.PtBuild(spec, post=make_post(stored, {}))
        dag = pt.transform.deduplicate(pt.make_dict_of_named_arrays(b.outputs()))
        bp = ctarget.generate(dag)
        _code, t2 = ctarget.gen_c(bp.program)
    except Exception:  # noqa: BLE001 -- C01's business
        return None
    kn = kernel_names(bp, t2)
    names: set[str] = set()
    for v in kn.values():
        names |= v
    return names


def run_named(spec: dict[str, Any], naming: dict[str, Any], col: common.Collector,
              wit: dict[str, Any]) -> None:
    """naming: {"inputs": {id: name}, "outputs": {old key: new key}, "tags": asg,
    "expect": "ok"|"clash"|"either"}"""
    import pytato as pt
    from pytato.diagnostic import NameClashError
    from vf.checks.c07 import make_post
    from vf.exec import ctarget
    from vf.oracle import compare

    in_names: dict[str, str] = naming["inputs"]
    out_names: dict[str, str] = naming["outputs"]
    expect = naming["expect"]
    dup_of: dict[str, int] = naming.get("dup", {})

    def namer(i: int, inp: dict[str, Any]) -> str:
        return in_names.get(str(i), inp["name"])
    try:
        b = ps.PtBuild(spec, namer=namer, post=make_post(naming.get("tags", {}), {}))
    except Exception as e:  # noqa: BLE001
        if expect == "either":
            col.histo("either_outcome", "construction-error:" + type(e).__name__)
            return
        col.histo("construction_failed", type(e).__name__)
        if naming.get("scenario") != "baseline" and "_baseline_ok" in naming:
            # the default-named program builds: a user name outside the reserved patterns
            # was refused
            col.violation(f"C15:legal-name-rejected:{type(e).__name__}@{common.exc_site(e)}",
                          f"building the program with these (non-reserved) names raises "
                          f"{type(e).__name__}: {str(e)[:140]}", wit)
        return
    outs = {out_names.get(k, k): v for k, v in b.outputs().items()}
    # scenario "clash": a second, distinct placeholder with the name of an existing one
    extra_env: dict[str, np.ndarray] = {}
    if dup_of:
        for name, iid in dup_of.items():
            src = b.nodes[iid]
            # same name, different array (an equal twin would simply be merged by
            # deduplicate, which is fine)
            twin = pt.make_placeholder(name, (*src.shape, 2), src.dtype)
            k0 = sorted(outs)[0]
            if outs[k0].shape == () or True:
                try:
                    outs[k0] = outs[k0] + pt.sum(twin).astype(outs[k0].dtype) \
                        if outs[k0].dtype.kind in "fc" and twin.dtype.kind in "fiu" \
                        else outs[k0]
                except Exception:  # noqa: BLE001
                    pass
            if "twin_out" not in outs:
                outs["twin_out"] = twin * 1 if twin.dtype.kind != "b" else pt.logical_not(twin)
    try:
        dag = pt.transform.deduplicate(pt.make_dict_of_named_arrays(outs))
        bp = ctarget.generate(dag)
    except ctarget.CodegenFailure as f:
        e = f.exc
        if expect == "clash":
            col.count("mon.clash_oracle")
            if not isinstance(e, NameClashError):
                col.violation(f"C15:clash-wrong-error:{type(e).__name__}",
                              "two distinct inputs with one name did not raise NameClashError "
                              f"but {type(e).__name__}: {str(e)[:120]}", wit)
            return
        if isinstance(e, ValueError) and "conflicts with an existing name" in str(e) \
                and naming.get("tags"):
            col.histo("named_outcome", "ValueError-conflict")
            return
        if expect == "either":
            col.histo("either_outcome", "error:" + type(e).__name__)
            return
        col.violation(f"C15:codegen:{f.stage}:{type(e).__name__}@{common.exc_site(e)}:"
                      f"{naming['scenario']}",
                      f"code generation fails under this (legal) naming: {str(e)[:160]}", wit)
        return
    except Exception as e:  # noqa: BLE001
        if expect in ("either", "clash") and isinstance(e, NameClashError):
            col.count("mon.clash_oracle")
            return
        col.violation(f"C15:deduplicate:{type(e).__name__}@{common.exc_site(e)}",
                      f"{type(e).__name__}: {str(e)[:160]}", wit)
        return
    if expect == "clash":
        col.count("mon.clash_oracle")
        col.violation("C15:clash-accepted", "two distinct inputs with the same name were "
                      "accepted by generate_loopy", wit)
        return
    # -- name oracle on the unprocessed kernel
    col.count("mon.name_oracle")
    kn = kernel_names(bp)
    knl = bp.program.default_entrypoint
    from pytato.transform import InputGatherer
    reach = [x for x in InputGatherer()(dag)]
    for x in reach:
        if isinstance(x, (pt.Placeholder, pt.SizeParam)):
            if x.name not in kn["args"]:
                col.violation("C15:input-name-missing", f"placeholder {x.name!r} is not a kernel "
                              "argument of that name", wit)
    out_args = {a.name for a in knl.args if getattr(a, "is_output", False)}
    if out_args != set(outs):
        col.violation("C15:output-keys", f"kernel outputs {sorted(out_args)} != dictionary keys "
                      f"{sorted(outs)}", wit)
    spaces = [("args", kn["args"]), ("temps", kn["temps"]), ("inames", kn["inames"]),
              ("substs", kn["substs"])]
    for i in range(len(spaces)):
        for j in range(i + 1, len(spaces)):
            common_ = spaces[i][1] & spaces[j][1]
            if common_:
                col.violation(f"C15:name-in-two-spaces:{spaces[i][0]}+{spaces[j][0]}",
                              f"name(s) {sorted(common_)} used both as {spaces[i][0]} and "
                              f"{spaces[j][0]}", wit)
    user_names = set(outs) | {x.name for x in reach
                              if isinstance(x, (pt.Placeholder, pt.SizeParam))}
    tagged_names = {t[1] for tags in naming.get("tags", {}).values() for t in tags
                    if t[0] in ("named", "prefix")}
    # the unique-name generator may replace a trailing counter of a prefix
    tagged_names |= {re.sub(r"_?[0-9]+$", "", n) for n in tagged_names} - {""}
    for t in kn["temps"]:
        if not t.startswith("_pt_") and not any(t == n or t.startswith(n) for n in tagged_names):
            col.violation("C15:temporary-outside-reserved-space", f"temporary {t!r} is neither "
                          "in the _pt_ name space nor derived from a naming tag", wit)
        if t in user_names and t not in tagged_names:
            col.violation("C15:temporary-equals-user-name", f"temporary {t!r} has a user's name",
                          wit)
    bound = dict(bp.bound_arguments)
    ph_names = {x.name for x in reach if isinstance(x, (pt.Placeholder, pt.SizeParam))}
    for k in bound:
        if k in ph_names or (k in user_names and k not in tagged_names):
            col.violation("C15:bound-name-equals-user-name", f"wrapped data is bound under "
                          f"{k!r}, which is also the name of a user input/output: the two "
                          "arrays are one kernel argument", wit)
        if not k.startswith("_pt_") and not any(k.startswith(n) for n in tagged_names):
            col.violation("C15:bound-name-outside-reserved-space", f"bound argument {k!r}", wit)
    dw_ids = {id(x.data) for x in reach if isinstance(x, pt.DataWrapper)}
    for k, v in bound.items():
        if id(v) not in dw_ids:
            col.violation("C15:bound-data-identity", f"bound argument {k} is not the wrapped "
                          "object", wit)
    # Named(n) on a stored node -> a temporary (or output) called exactly n
    for nid, tags in naming.get("tags", {}).items():
        nm = [t[1] for t in tags if t[0] == "named"]
        st = [t for t in tags if t[0] == "stored"]
        if nm and st and int(nid) not in b.post_skipped:
            node = b.nodes.get(int(nid))
            is_out = any(node is v for v in b.outputs().values())
            if not is_out and node is not None and nm[0] not in kn["temps"]:
                # the node may have been dead code or merged by deduplication with an
                # equal node; only report when it is reachable
                from vf.oracle import reflect
                if any(n is node for n in reflect.walk(dag)):
                    col.violation("C15:named-not-honoured", f"Named({nm[0]!r}) on a stored node: "
                                  f"no temporary of that name (temporaries {sorted(kn['temps'])})",
                                  wit)
    before = {k: np.asarray(v).tobytes() for k, v in bound.items()}
    # -- value oracle (pairwise distinct inputs: an alias changes a value)
    try:
        cp = ctarget.compile_program(bp)
    except ctarget.CodegenFailure as f:
        if expect == "either":
            col.histo("either_outcome", "error:" + f.stage)
            return
        from vf.checks.c01 import loopy_limitation, trusted_base_signatures
        if loopy_limitation(f.stage, f.exc, f.detail, bp) or trusted_base_signatures(bp.program):
            return
        col.histo("compile_failed", f.stage)      # C01's business unless naming-specific
        return
    ref, spread, fragile, _p = ps.reference(spec, 0)
    if fragile:
        col.count("skipped_fragile")
        return
    env = {in_names.get(str(i["id"]), i["name"]): v for i, v in
           ((i, ps.input_values(spec, 0)[i["id"]]) for i in spec["inputs"] if i["kind"] == "ph")}
    try:
        rr = ctarget.run(cp, bp, {k: v for k, v in env.items() if k in knl.arg_dict})
    except ctarget.KernelContractError as e:
        if expect == "either":
            col.histo("either_outcome", "interface-error")
            return
        col.violation("C15:kernel-interface", str(e)[:200], wit)
        return
    inv = {v: k for k, v in out_names.items()}
    base_ok = naming.get("_baseline_ok")
    for name, got in rr.outputs.items():
        if base_ok is not None and not base_ok.get(inv.get(name, name), False):
            continue          # the default-named program already disagrees: C01's case
        old = inv.get(name, name)
        if old not in ref:
            continue
        col.count("mon.value_oracle")
        with np.errstate(all="ignore"):
            want = ref[old].astype(got.dtype)
        if got.shape != want.shape or not compare.close_ulps(got, want, 16.0,
                                                             err=8.0 * spread[old]):
            col.violation("C15:value-under-renaming:" + naming["scenario"],
                          f"output {name!r} differs from NumPy under this naming (aliasing?)",
                          {**wit, "output_key": old,
                           "diff": compare.describe_diff(got, want)})
    for k, v in bound.items():
        if np.asarray(v).tobytes() != before[k]:
            col.violation("C15:bound-data-modified", f"bound argument {k}", wit)


def make_naming(spec: dict[str, Any], scenario: str, rng: Any, gen_names: set[str]
                ) -> tuple[dict[str, Any], bool]:
    """-> (naming, close?) where close = some user name equals / is one edit from a generated
    name."""
    phs = [i for i in spec["inputs"] if i["kind"] == "ph"]
    pool: list[str] = []
    gl = sorted(gen_names)
    for g in rng.sample(gl, min(len(gl), 12)):
        pool.append(g)
        pool.extend(edits(g, rng))
    pool.extend(rng.sample(FIXED, 6))
    pool = [p for p in dict.fromkeys(pool) if p.isidentifier()]
    legal = [p for p in pool if not RESERVED.match(p)]
    reserved = [p for p in pool if RESERVED.match(p)] + RESERVED_SAMPLES
    naming: dict[str, Any] = {"inputs": {}, "outputs": {}, "tags": {}, "expect": "ok",
                              "scenario": scenario}
    # new names never coincide with a default input name or a default output key unless
    # a scenario asks for it (then the expectation is "either")
    used: set[str] = {i["name"] for i in phs} | set(spec["outputs"])

    def take(cands: list[str]) -> str | None:
        rng.shuffle(cands)
        for c in cands:
            if c not in used:
                used.add(c)
                return c
        return None
    src = reserved if scenario == "reserved" else legal
    if scenario == "reserved":
        naming["expect"] = "either"
    for i in phs:
        if rng.random() < 0.7:
            n = take(list(src))
            if n:
                naming["inputs"][str(i["id"])] = n
    out_used: set[str] = set(spec["outputs"])
    for k in spec["outputs"]:
        if rng.random() < 0.7:
            cands = [c for c in (legal if scenario != "reserved" else reserved + legal)
                     if c not in out_used and c not in used]
            if scenario == "outkeys" and naming["inputs"] and rng.random() < 0.7:
                # an output key equal to the name of an input (possibly a different array)
                cands = [c for c in list(naming["inputs"].values())
                         + [i["name"] for i in phs] if c not in out_used]
                naming["expect"] = "either"
            if cands:
                c = rng.choice(cands)
                naming["outputs"][k] = c
                out_used.add(c)
                continue
    if scenario == "dwnamed":
        dws = [i for i in spec["inputs"] if i["kind"] == "dw"]
        in_all = [naming["inputs"].get(str(i["id"]), i["name"]) for i in phs]
        for i in dws:
            if not in_all:
                break
            nm = rng.choice(in_all + legal[:2])
            naming["tags"][str(i["id"])] = [[rng.choice(["prefix", "prefix", "named"]), nm]]
        naming["expect"] = "either"      # Named may legitimately be refused
    if scenario == "named":
        # (a loopy call is not an array, its results are entries of a container: neither
        # can carry a naming tag of its own)
        node_ids = [n["id"] for n in spec["nodes"]
                    if n["op"] not in ("call_loopy", "getitem_named")]
        for nid in rng.sample(node_ids, min(len(node_ids), 3)):
            cands = [c for c in legal if c not in out_used]
            if not cands:
                break
            nm = rng.choice(cands + list(naming["inputs"].values())[:1])
            kind = rng.choice(["named", "named", "prefix"])
            naming["tags"][str(nid)] = [["stored", None], [kind, nm]]
    if scenario == "clash" and phs:
        byid = {n["id"]: n for n in spec["nodes"]}
        need: set[int] = set()
        stack = list(spec["outputs"].values())
        while stack:
            j = stack.pop()
            if j in need:
                continue
            need.add(j)
            if j in byid:
                stack.extend(a for a in byid[j]["args"] if ps.is_ref(a))
        rphs = [i for i in phs if i["id"] in need]
        if not rphs:
            naming["scenario"] = scenario = "feedback"
    if scenario == "clash" and phs:
        i = rng.choice(rphs)
        naming["dup"] = {naming["inputs"].get(str(i["id"]), i["name"]): i["id"]}
        naming["expect"] = "clash"
    chosen = set(naming["inputs"].values()) | set(naming["outputs"].values()) | {
        t[1] for tags in naming["tags"].values() for t in tags if t[1]}

    def close(a: str) -> bool:
        for g in gen_names:
            if a == g:
                return True
            if abs(len(a) - len(g)) <= 1:
                # edit distance <= 1
                if len(a) == len(g):
                    if sum(x != y for x, y in zip(a, g)) <= 1:
                        return True
                else:
                    s, l = (a, g) if len(a) < len(g) else (g, a)
                    for j in range(len(l)):
                        if l[:j] + l[j + 1:] == s:
                            return True
        return False
    return naming, any(close(c) for c in chosen)


def name_class(n: str) -> str:
    if re.match(r"^_[0-9]+$", n):
        return "_N(index-var)"
    if re.match(r"^_r[0-9]+$", n):
        return "_rN(reduction-var)"
    if re.match(r"^_in[0-9]+$", n):
        return "_inN(binding)"
    if n.startswith("_pt_"):
        return re.sub(r"[0-9]+", "N", n)
    return "legal"


def minimise_naming(spec: dict[str, Any], naming: dict[str, Any], coarse: str
                    ) -> dict[str, Any]:
    import copy

    def fails(nm: dict[str, Any]) -> bool:
        c2 = common.Collector()
        try:
            run_named(spec, nm, c2, {})
        except Exception:  # noqa: BLE001
            return False
        return any(v["key"] == coarse for v in c2.violations)
    cur = copy.deepcopy(naming)
    changed = True
    while changed:
        changed = False
        for part in ("inputs", "outputs", "tags"):
            for k in list(cur[part]):
                cand = copy.deepcopy(cur)
                del cand[part][k]
                if fails(cand):
                    cur, changed = cand, True
                    break
            if changed:
                break
    return cur


def check_case(case: dict[str, Any], col: common.Collector) -> None:
    spec = case.get("spec")
    if spec is None:
        # (every fourth "mixed" program: several hand-written loopy calls -- code generation
        # merges the callee into the kernel, a different path through the name generators)
        opts = dict(OPTS, loopy_boost=6.0) if case["profile"] == "mixed" \
            and case["seed"] % 4 == 0 else OPTS
        spec = proggen.generate(case["seed"], case["profile"], opts=opts)
    rng = common.rng_for(spec["vseed"], "c15", case.get("scenario"))
    if case.get("spec") is None and case.get("scenario") == "outkeys" and rng.random() < 0.5:
        # one array returned under two (or three) keys: every key must be a kernel output
        k0 = rng.choice(sorted(spec["outputs"]))
        for j in range(rng.choice([1, 1, 2])):
            spec["outputs"][f"{k0}_alias{j}"] = spec["outputs"][k0]
    if "naming" in case:
        naming, close = case["naming"], True
    else:
        node_ids = [n["id"] for n in spec["nodes"] if n["op"] != "call_loopy"]
        stored = {str(n): [["stored", None]] for n in
                  rng.sample(node_ids, min(len(node_ids), 3))}
        gen_names = first_pass(spec, stored)
        if gen_names is None:
            col.histo("first_pass_failed", "x")
            col.case()
            return
        naming, close = make_naming(spec, case["scenario"], rng, gen_names)
        if not naming["tags"]:
            naming["tags"] = stored if rng.random() < 0.7 else {}
    col.histo("scenario", naming["scenario"])
    wit = {"spec": spec, "naming": naming}
    # baseline with default names: which outputs agree with NumPy at all
    bcol = common.Collector()
    try:
        run_named(spec, {"inputs": {}, "outputs": {}, "tags": {}, "expect": "ok",
                         "scenario": "baseline"}, bcol, {})
        bad = {v["witness"].get("output_key") for v in bcol.violations
               if v["key"].startswith("C15:value-under-renaming")}
        for v in bcol.violations:
            # the default names are a naming too: a key or an input name that does not
            # appear in the kernel is this property's matter, not C01's
            if v["key"].startswith(("C15:output-keys", "C15:input-name-missing")):
                col.violation(v["key"] + ":default-names", v["what"],
                              {"spec": spec, "naming": {"inputs": {}, "outputs": {}, "tags": {},
                                                        "expect": "ok", "scenario": "baseline"}})
        if any(not v["key"].startswith("C15:value-under-renaming") for v in bcol.violations) \
                or not bcol.counters.get("mon.value_oracle"):
            col.histo("baseline_unusable", "x")
            naming["_baseline_ok"] = {}
            if naming["scenario"] != "clash":
                # the default-named program does not get through code generation /
                # execution either: not a naming matter (C01's case)
                naming.pop("_baseline_ok", None)
                col.case()
                return
        else:
            naming["_baseline_ok"] = {k: (k not in bad) for k in spec["outputs"]}
    except Exception:  # noqa: BLE001
        naming["_baseline_ok"] = {}
    tmp = common.Collector()
    run_named(spec, naming, tmp, wit)
    for k, v in tmp.counters.items():
        col.count(k, v)
    for t, d in tmp.hist.items():
        for k, v in d.items():
            col.histo(t, k, v)
    done: set[str] = set()
    for v in tmp.violations:
        if v["key"] in done:
            continue
        done.add(v["key"])
        try:
            small = minimise_naming(spec, naming, v["key"])
        except Exception:  # noqa: BLE001
            small = naming
        classes = sorted({"in:" + name_class(n) for n in small["inputs"].values()}
                         | {"out:" + name_class(n) for n in small["outputs"].values()}
                         | {f"tag:{t[0]}:{name_class(t[1])}" for tags in small["tags"].values()
                            for t in tags if t[1]})
        w2 = dict(v["witness"]) if isinstance(v["witness"], dict) else {}
        w2["naming"] = {k: v for k, v in small.items() if k != "_baseline_ok"}
        col.violation(f"{v['key']}:{','.join(classes)[:120]}", v["what"], w2)
    naming.pop("_baseline_ok", None)
    col.case(common.stable_hash([spec, naming]), close,
             {"scenario": naming["scenario"], "input_names": naming["inputs"],
              "output_keys": naming["outputs"], "tags": naming["tags"],
              "ops": ps.node_kinds(spec)})


def sizeparam_cases(col: common.Collector) -> None:
    """Size parameters are named inputs too: a small symbolic program is generated once with
    harmless names; every (non-reserved) name the generator invented for it -- loop
    variables, accumulators, temporaries -- and names given by PrefixNamed / Named tags are
    then used AS the size parameter's name (feedback scenario for size parameters)."""
    import pytato as pt
    from pytato.tags import ImplStored, Named, PrefixNamed
    from vf.exec import ctarget

    def program(nm: str, tag: Any = None) -> tuple[Any, dict[str, Any]]:
        n = pt.make_size_param(nm)
        x = pt.make_placeholder("x", (n, 3), np.float64)
        t = (2 * x).tagged(ImplStored())
        if tag is not None:
            t = t.tagged(tag)
        return pt.make_dict_of_named_arrays({"out": pt.roll(t, 1, axis=1) + 1,
                                             "red": pt.sum(t, axis=1)}), {"n": n, "x": x}

    def names_of(bp: Any) -> dict[str, set[str]]:
        try:
            _c, t2 = ctarget.gen_c(bp.program)
        except Exception:  # noqa: BLE001
            t2 = None
        return kernel_names(bp, t2)
    try:
        bp0 = ctarget.generate(program("n")[0])
    except Exception as e:  # noqa: BLE001
        col.histo("sizeparam_baseline_failed", type(e).__name__)
        return
    kn0 = names_of(bp0)
    invented = sorted({v for k, vs in kn0.items() for v in vs}
                      - {"n", "x", "out", "red"})
    cands = [("generated:" + ("reserved" if g.startswith("_pt_") else "legal"), g, None)
             for g in invented if g.isidentifier()]
    cands += [("prefixnamed", "n", PrefixNamed("n")), ("prefixnamed", "tmp", PrefixNamed("tmp")),
              ("named", "n", Named("n"))]
    xv = np.arange(6.0).reshape(2, 3)
    want = {"out": np.roll(2 * xv, 1, axis=1) + 1, "red": (2 * xv).sum(axis=1)}
    for kind, nm, tag in cands:
        wit = {"sizeparam_name": nm, "kind": kind, "tag": repr(tag)}
        col.count("mon.sizeparam_names")
        try:
            g, _ = program(nm, tag)
            bp = ctarget.generate(g)
        except Exception as e:  # noqa: BLE001
            if kind.endswith("reserved") or kind == "named" or \
                    (isinstance(e, ctarget.CodegenFailure) and isinstance(e.exc, ValueError)
                     and "conflict" in str(e.exc)):
                col.histo("sizeparam_outcome", f"{kind}:error")
                continue
            col.violation(f"C15:sizeparam:codegen-fails:{kind}",
                          f"size parameter named {nm!r}: {type(e).__name__}: {str(e)[:140]}", wit)
            continue
        kn = names_of(bp)
        spaces = ["args", "temps", "inames", "substs"]
        clash = [(a, b2) for i, a in enumerate(spaces) for b2 in spaces[i + 1:]
                 if kn[a] & kn[b2]]
        if nm not in kn["args"]:
            col.violation(f"C15:sizeparam:not-an-argument:{kind}",
                          f"size parameter {nm!r} is not a kernel argument of that name", wit)
        if clash or (nm in kn["temps"] | kn["inames"] | kn["substs"]):
            col.violation(f"C15:sizeparam:name-reused:{kind}",
                          f"size parameter name {nm!r} also names another kernel entity "
                          f"(name spaces sharing names: {clash})", wit)
            continue
        if kind.endswith("reserved"):
            col.histo("sizeparam_outcome", f"{kind}:kept-distinct")
        try:
            cp = ctarget.compile_program(bp)
            rr = ctarget.run(cp, bp, {"x": xv, nm: 2})
            for k, w in want.items():
                if not np.array_equal(rr.outputs[k], w):
                    col.violation(f"C15:sizeparam:value:{kind}",
                                  f"size parameter named {nm!r}: output {k} = "
                                  f"{rr.outputs[k].tolist()} instead of {w.tolist()}", wit)
                    break
            else:
                col.histo("sizeparam_outcome", f"{kind}:ok")
        except ctarget.CodegenFailure as f:
            col.violation(f"C15:sizeparam:later-stage-fails:{kind}:{f.stage}",
                          f"size parameter named {nm!r}: generate_loopy succeeded, {f.stage} "
                          f"fails: {str(f.exc)[:120] if f.exc else f.detail[-160:]}", wit)
        except Exception as e:  # noqa: BLE001
            col.violation(f"C15:sizeparam:run-fails:{kind}:{type(e).__name__}", str(e)[:140], wit)


def run_shard(shard: dict[str, Any], col: common.Collector) -> None:
    if shard.get("idx", 0) == 0:
        try:
            with common.time_limit(300):
                sizeparam_cases(col)
        except common.Timeout:
            col.count("program_timeouts")
    for case in shard["cases"]:
        try:
            with common.time_limit(90):
                check_case(case, col)
        except common.Timeout:
            col.count("program_timeouts")
        except Exception as e:  # noqa: BLE001
            import traceback
            col.violation(f"C15:harness-exception:{type(e).__name__}@"
                          f"{common.exc_site(e, ('vf',))}",
                          f"unexpected {type(e).__name__}: {str(e)[:200]}",
                          {"case": case, "tb": traceback.format_exc()[-2000:]})
        finally:
            pass


def replay(witness: dict[str, Any], col: common.Collector) -> None:
    if "spec" in witness:
        check_case({"spec": witness["spec"], "naming": witness.get("naming"),
                    "scenario": (witness.get("naming") or {}).get("scenario")}, col)
    else:
        check_case(witness["case"], col)
