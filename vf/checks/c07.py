"""C07 -- tags carry no semantics; implementation strategies are equivalent.

Events: outputs of generated C for one program under k tag assignments (untagged
baseline, all tags stripped, random assignments of ImplStored / ImplInlined /
ImplSubstitution / PrefixNamed / Named(fresh) / user tags on arrays, axes and
reduction descriptors); per-variant kernel structure counters proving the tags took
effect.
Oracle: same output names, shapes, dtypes; values within the C01 tolerance of the
NumPy shadow and within a few ulp of the baseline variant.
"""
from __future__ import annotations

import signal
from typing import Any

import numpy as np

from vf import common
from vf.gen import proggen
from vf.gen import progspec as ps

LEVEL = "exploration"
RULE = ("C01 programs (no loopy calls) x tag assignments: baseline, stripped, and random "
        "assignments of implementation / naming / user tags to random subsets of nodes, axes, "
        "reduction descriptors and inputs; distinct by (spec hash, assignment); non-trivial = "
        "the variant's kernel structure (temporaries, substitution rules, instructions, iname/"
        "argument tags, names) differs from the baseline's")
ASSUMPTIONS = [
    "as C01; compiled without contraction the strategies perform the same floating-point "
    "operations, so variants must agree with the baseline to 8 ulp (plus the shadow's spread)",
]
MIN_MONITOR = {"mon.variant_value_oracle": 50, "mon.structure_differs": 20,
               "mon.variants_interpreted": 20, "mon.sym_variant_value_oracle": 20}
SHARD_TIMEOUT = {"quick": 900, "thorough": 7200}
N_PROGRAMS = {"quick": 500, "thorough": 12000}
N_VARIANTS = {"quick": 6, "thorough": 14}
N_SYM = {"quick": 160, "thorough": 3200}
N_SYM_VARIANTS = {"quick": 4, "thorough": 8}
OPTS: dict[str, Any] = {}


_Timeout = common.Timeout


def plan(tier: str, seed: int) -> list[dict[str, Any]]:
    n = N_PROGRAMS[tier]
    profiles = ["mixed", "reduce", "einsum", "index", "elementwise", "zero"]
    cases = [{"seed": common.sub_seed(seed, "c07", i) & 0x7FFFFFFF,
              "profile": profiles[i % len(profiles)], "nvar": N_VARIANTS[tier]}
             for i in range(n)]
    # symbolic-shape programs (size parameters in shapes, reduction extents, broadcasts):
    # one parametric kernel per tag assignment, run at several valuations
    cases += [{"seed": common.sub_seed(seed, "c07-sym", i) & 0x7FFFFFFF, "sym": True,
               "nvar": N_SYM_VARIANTS[tier]} for i in range(N_SYM[tier])]
    common.rng_for(seed, "c07-plan").shuffle(cases)
    return [{"cases": c} for c in common.split_even(cases, common.NCPU * (1 if tier == "quick"
                                                                          else 4))]


# ---------------------------------------------------------------------------
# tag assignments: {node id: [descriptor, ...]}; descriptor = [kind, arg]

TAG_KINDS = ["stored", "inlined", "subst", "prefix", "named", "vtag", "axis", "redn"]


def random_assignment(spec: dict[str, Any], rng: Any, k: int) -> dict[str, list[list[Any]]]:
    asg: dict[str, list[list[Any]]] = {}
    node_ids = [n["id"] for n in spec["nodes"] if n["op"] not in ("call_loopy",)]
    input_ids = [i["id"] for i in spec["inputs"]]
    density = rng.choice([0.15, 0.3, 0.6])
    shared_named = [False]
    targeted = rng.random() < 0.35
    byid = {n["id"]: n for n in spec["nodes"]}
    users: dict[int, int] = {}
    for n in spec["nodes"]:
        for a in n["args"]:
            if ps.is_ref(a):
                users[a] = users.get(a, 0) + 1
    for nid in node_ids:
        r = rng.random()
        want = r < density
        if targeted:
            # targeted placements of the quantifier: operands of reductions, shared nodes
            op_users = [m["op"] for m in spec["nodes"] if nid in [a for a in m["args"]
                                                                   if ps.is_ref(a)]]
            if any(o in ("sum", "prod", "amax", "amin", "all", "any", "einsum", "matmul",
                         "dot", "vdot") for o in op_users) or users.get(nid, 0) >= 2:
                want = rng.random() < 0.8
        if not want:
            continue
        tags: list[list[Any]] = []
        strat = rng.choice(["stored", "stored", "inlined", "subst", "subst", None])
        if strat:
            tags.append([strat, None])
        if rng.random() < 0.25:
            # names are mostly unique; sometimes several nodes share the base name "t" (one
            # Named("t") at most, any number of PrefixNamed("t")): generated names must still
            # be distinct
            if rng.random() < 0.35:
                if not shared_named[0] and rng.random() < 0.4:
                    shared_named[0] = True
                    tags.append(["named", "t"])
                else:
                    tags.append(["prefix", "t"])
            else:
                tags.append(["prefix", f"pfx{k}_{nid}"] if rng.random() < 0.5
                            else ["named", f"nm{k}_{nid}"])
        if rng.random() < 0.4:
            tags.append(["vtag", rng.randrange(100)])
        if rng.random() < 0.4:
            tags.append(["axis", [rng.randrange(4), rng.randrange(100)]])
        if byid[nid]["op"] in ("sum", "prod", "amax", "amin", "all", "any", "einsum",
                               "csr_matmul") and rng.random() < 0.5:
            tags.append(["redn", rng.randrange(100)])
        if tags:
            asg[str(nid)] = tags
    for iid in input_ids:
        if rng.random() < 0.2:
            tags = [["vtag", rng.randrange(100)]]
            if rng.random() < 0.4:
                tags.append(["axis", [rng.randrange(4), rng.randrange(100)]])
            asg[str(iid)] = tags
    return asg


def make_post(asg: dict[str, list[list[Any]]], applied: dict[str, int]) -> Any:
    import pytato as pt
    from pytato.array import EinsumReductionAxis
    from pytato.tags import ImplInlined, ImplStored, Named, PrefixNamed
    from pytato.target.loopy import ImplSubstitution
    from vf.vtags import VAxisTag, VRednTag, VTag

    def post(nid: int, ary: Any) -> Any:
        tags = asg.get(str(nid))
        if not tags or not isinstance(ary, pt.Array):
            return ary
        if isinstance(ary, pt.NamedArray):
            # results of containers (loopy call results) carry user / strategy / axis tags;
            # naming tags on them cannot be honoured (refused for Named)
            tags = [t for t in tags if t[0] not in ("named", "prefix")]
        for kind, arg in tags:
            try:
                if kind == "stored":
                    ary = ary.tagged(ImplStored())
                elif kind == "inlined":
                    ary = ary.tagged(ImplInlined())
                elif kind == "subst":
                    ary = ary.tagged(ImplSubstitution())
                elif kind == "prefix":
                    ary = ary.tagged(PrefixNamed(arg))
                elif kind == "named":
                    ary = ary.tagged(Named(arg))
                elif kind == "vtag":
                    ary = ary.tagged(VTag(arg))
                elif kind == "axis":
                    if ary.ndim:
                        ary = ary.with_tagged_axis(arg[0] % ary.ndim, VAxisTag(arg[1]))
                    else:
                        continue
                elif kind == "redn":
                    if isinstance(ary, pt.IndexLambda) and ary.var_to_reduction_descr:
                        v = sorted(ary.var_to_reduction_descr)[0]
                        ary = ary.with_tagged_reduction(v, VRednTag(arg))
                    elif isinstance(ary, pt.Einsum) and ary.redn_axis_to_redn_descr:
                        ary = ary.with_tagged_reduction(EinsumReductionAxis(0), VRednTag(arg))
                    elif isinstance(ary, pt.CSRMatmul):
                        ary = ary.with_tagged_reduction(VRednTag(arg))
                    else:
                        continue
                applied[kind] = applied.get(kind, 0) + 1
            except Exception as e:  # noqa: BLE001
                raise TagApplyError(kind, e) from e
        return ary
    return post


class TagApplyError(Exception):
    def __init__(self, kind: str, exc: BaseException):
        self.kind = kind
        self.exc = exc
        super().__init__(f"{kind}: {type(exc).__name__}: {exc}")


def strip_all_tags(dag: Any) -> Any:
    """Reflective rebuild with every tag set emptied (arrays, axes, reduction descriptors)."""
    import pytato as pt
    from constantdict import constantdict
    from pytato.array import Axis, ReductionDescriptor
    from vf.oracle import reflect

    def fn(n: Any, vals: dict[str, Any]) -> Any:
        changed = False
        if "tags" in vals and vals["tags"]:
            vals["tags"] = frozenset()
            changed = True
        if "axes" in vals and any(a.tags for a in vals["axes"]):
            vals["axes"] = tuple(Axis(frozenset()) for _ in vals["axes"])
            changed = True
        for f in ("var_to_reduction_descr", "redn_axis_to_redn_descr"):
            if f in vals and any(d.tags for d in vals[f].values()):
                vals[f] = constantdict({k: ReductionDescriptor(frozenset()) for k in vals[f]})
                changed = True
        if "reduction_descr" in vals and vals["reduction_descr"].tags:
            vals["reduction_descr"] = ReductionDescriptor(frozenset())
            changed = True
        if changed or any(vals[k] is not getattr(n, k) for k in vals):
            return reflect._construct_like(n, vals)
        return None
    del pt
    return reflect.rebuild(dag, fn)


def structure(bp: Any) -> dict[str, Any]:
    knl = bp.program.default_entrypoint
    return {
        "n_insns": len(knl.instructions),
        "temporaries": sorted(knl.temporary_variables),
        "n_subst": len(knl.substitutions),
        "iname_tags": sorted((i, sorted(repr(t) for t in knl.inames[i].tags))
                             for i in knl.inames if knl.inames[i].tags),
        "arg_tags": sorted((a.name, sorted(repr(t) for t in a.tags)) for a in knl.args
                           if getattr(a, "tags", None)),
        "tv_tags": sorted((n, sorted(repr(t) for t in tv.tags))
                          for n, tv in knl.temporary_variables.items() if tv.tags),
    }


def run_variant(spec: dict[str, Any], asg: dict[str, list[list[Any]]] | None, strip: bool,
                vset: int) -> dict[str, Any]:
    """-> {"status": ok|named-conflict|tag-refused|fail, ...}"""
    import pytato as pt
    from vf.exec import ctarget
    applied: dict[str, int] = {}
    try:
        b = ps.PtBuild(spec, vset=vset, post=make_post(asg, applied) if asg else None)
    except TagApplyError as e:
        return {"status": "tag-refused", "kind": e.kind, "exc": e.exc}
    outs = b.outputs()
    dag = pt.make_dict_of_named_arrays(outs)
    if strip:
        dag = strip_all_tags(dag)
    dag = pt.transform.deduplicate(dag)
    try:
        bp = ctarget.generate(dag)
    except ctarget.CodegenFailure as f:
        if isinstance(f.exc, ValueError) and "conflicts with an existing name" in str(f.exc):
            return {"status": "named-conflict"}
        return {"status": "fail", "stage": f.stage, "exc": f.exc, "detail": f.detail}
    try:
        cp = ctarget.compile_program(bp)
    except ctarget.CodegenFailure as f:
        return {"status": "fail", "stage": f.stage, "exc": f.exc, "detail": f.detail, "bp": bp}
    rr = ctarget.run(cp, bp, b.env(vset))
    # kernel-level interpretation in an adversarial dependency-compatible order: a store
    # whose consumers lack the dependency edge shows up as read-before-write
    rbw: list[Any] = []
    ioob: list[Any] = []
    iout: dict[str, np.ndarray] | None = None
    try:
        from vf.exec import lpinterp
        it = lpinterp.interpret(bp, b.env(vset))
        rbw, iout = it.rbw, it.outputs()
        ioob = [o for o in it.oob if not o.get("data_dependent")]
    except Exception:  # noqa: BLE001  (unsupported kernel forms)
        pass
    return {"status": "ok", "outputs": rr.outputs, "structure": structure(bp), "bp": bp,
            "cp": cp, "env": b.env(vset), "rbw": rbw,
            "dep_repairs": list(getattr(cp, "dep_repairs", []) or []), "interp_outputs": iout, "interp_oob": ioob,
            "applied": applied, "decl": {k: (tuple(int(s) for s in v.shape), str(v.dtype))
                                          for k, v in outs.items()},
            "canary": rr.canary_violations}


def compare_variant(spec: dict[str, Any], base: dict[str, Any], var: dict[str, Any],
                    ref: dict[str, np.ndarray], spread: dict[str, np.ndarray]
                    ) -> list[tuple[str, str, dict[str, Any]]]:
    from vf.oracle import compare
    out: list[tuple[str, str, dict[str, Any]]] = []
    if set(var["outputs"]) != set(base["outputs"]):
        out.append(("C07:output-names", f"{sorted(var['outputs'])} vs baseline "
                    f"{sorted(base['outputs'])}", {}))
        return out
    if var["decl"] != base["decl"]:
        out.append(("C07:declared-shape-dtype", "declared shapes/dtypes changed", {}))
    if var["canary"]:
        out.append(("C07:out-of-bounds-write", f"buffers {var['canary']}", {}))
    if var.get("dep_repairs") and not base.get("dep_repairs"):
        out.append(("C07:dependency-omitted:repaired-by-loopy-heuristic",
                    "under this tag assignment the kernel lacks a writer->reader dependency "
                    f"(loopy's single-writer heuristic added it): {var['dep_repairs'][0][:160]}",
                    {}))
    if var.get("rbw") and not base.get("rbw"):
        out.append(("C07:read-before-write", "under this tag assignment an instruction reads "
                    "an element no instruction it depends on has written",
                    {"events": var["rbw"][:3]}))
    if var.get("interp_oob") and not base.get("interp_oob"):
        out.append(("C07:kernel-oob-access", "tagged variant subscripts outside an array",
                    {"events": var["interp_oob"][:3]}))
    if var.get("interp_outputs") is not None:
        for name, iv in var["interp_outputs"].items():
            b0 = base["outputs"].get(name)
            if b0 is not None and iv.shape == b0.shape and not compare.close_ulps(
                    iv.astype(b0.dtype), b0, 8.0, err=2.0 * spread[name]) and \
                    compare.close_ulps(var["outputs"][name], b0, 8.0, err=2.0 * spread[name]):
                out.append(("C07:interp-value-vs-baseline", f"output {name}: the tagged kernel "
                            "interpreted in a dependency-compatible order differs from the "
                            "baseline (the compiled schedule happens to agree)",
                            {"output": name}))
    for name, got in var["outputs"].items():
        b0 = base["outputs"][name]
        if got.shape != b0.shape or got.dtype != b0.dtype:
            out.append(("C07:shape-dtype", f"output {name}: {got.dtype}{got.shape} vs baseline "
                        f"{b0.dtype}{b0.shape}", {"output": name}))
            continue
        with np.errstate(all="ignore"):
            want = ref[name].astype(got.dtype)
        ok_ref = compare.close_ulps(got, want, 16.0, err=8.0 * spread[name])
        ok_base = compare.close_ulps(got, b0, 8.0, err=2.0 * spread[name])
        if not ok_base:
            prec = got.dtype.kind in "fc" and compare.close_ulps(
                got, b0, 2.0 ** 30 if got.dtype.itemsize >= 8 else 2.0 ** 10)
            out.append(("C07:value-vs-baseline" + (":precision-only" if prec else "")
                        + ("" if not ok_ref else ":within-shadow-tol"),
                        f"output {name} differs from the untagged baseline",
                        {"output": name, "diff": compare.describe_diff(got, b0)}))
        elif not ok_ref:
            # agrees with the baseline to 8 ulp but sits just outside the shadow tolerance
            # the baseline passed: tolerance edge, nothing a tag did
            pass
    return out


def attribute(spec: dict[str, Any], asg: Any, var: dict[str, Any], probs: list[Any],
              ref: Any, spread: Any, vset: int, col: common.Collector) -> list[Any]:
    """Drop problems that are not specific to the tags:
    (a) value deviations of the BINARY only, where the tagged kernel contains a construct
        loopy's C printer mistranslates and the kernel-level interpreter (pytato's kernel
        before loopy) agrees with NumPy;
    (b) code generation failures that the UNTAGGED program shows as well once the stored /
        substituted nodes are made outputs (storing a node == making it an output): C01's."""
    if not probs:
        return probs
    from vf.checks import c01
    from vf.oracle import compare
    out = []
    tb: set[str] | None = None
    for coarse, what, extra in probs:
        if coarse.startswith(("C07:value-vs-baseline", "C07:value-vs-numpy")) and var.get("bp") \
                and var.get("interp_outputs") is not None:
            if tb is None:
                try:
                    tb = c01.trusted_base_signatures(var["bp"].program, var["bp"])
                except Exception:  # noqa: BLE001
                    tb = set()
            ok_int = True
            for name, iv in var["interp_outputs"].items():
                if name in ref:
                    with np.errstate(all="ignore"):
                        w = ref[name].astype(iv.dtype)
                    if iv.shape != w.shape or not compare.close_ulps(iv, w, 16.0,
                                                                      err=8.0 * spread[name]):
                        ok_int = False
            if tb and ok_int:
                col.histo("trusted_base_disagreements", "value:" + "+".join(sorted(tb)))
                continue
            oname = extra.get("output")
            if ok_int and oname in ref and var.get("cp") is not None:
                with np.errstate(all="ignore"):
                    w = ref[oname].astype(var["outputs"][oname].dtype)
                if c01.floor_subscripts_repair(var["cp"], var["bp"], var["env"], oname, w,
                                               8.0 * spread[oname]):
                    col.histo("trusted_base_disagreements",
                              "value:loopy-C:subscript-floor-division-printed-truncating")
                    continue
        if coarse.startswith("C07:value-vs-baseline:precision-only") and asg:
            # a stored / substituted node whose DECLARED dtype is wider than NumPy's (and
            # than the type loopy infers for the inlined expression): the temporary is
            # computed in the wider type, the inlined expression is not -- consequence of a
            # dtype rule recorded under C03 (known finding), keyed as such
            try:
                b0 = ps.PtBuild(spec, vset=vset)
                sh0 = ps.Shadow(spec, vset)
                for k, tags in asg.items():
                    if not any(t[0] in ("stored", "subst") for t in tags):
                        continue
                    decl = np.dtype(b0.nodes[int(k)].dtype)
                    npd = np.asarray(sh0.vals[int(k)]).dtype
                    if decl.kind in "fc" and npd.kind in "fc" and decl.itemsize > npd.itemsize:
                        coarse = ("C07:value-vs-baseline:precision-only:"
                                  "declared-dtype-wider-than-numpy")
                        break
            except Exception:  # noqa: BLE001
                pass
        if coarse.startswith("C07:codegen:") and asg:
            try:
                ids = [int(k) for k, tags in asg.items()
                       if any(t[0] in ("stored", "subst") for t in tags)]
                spec2 = dict(spec)
                spec2["outputs"] = dict(spec["outputs"])
                for nid in ids:
                    spec2["outputs"][f"vf_st{nid}"] = nid
                v2 = run_variant(spec2, None, False, vset)
                if v2["status"] == "fail":
                    e2 = v2.get("exc")
                    s2 = common.exc_site(e2) if e2 is not None else "gcc"
                    k2 = (f"C07:codegen:{v2['stage']}:{type(e2).__name__ if e2 else 'gcc'}"
                          f"@{s2}")
                    if coarse == k2:
                        col.histo("failure_shared_with_untagged_output_program",
                                  coarse.split(":", 2)[2][:80])
                        continue
            except Exception:  # noqa: BLE001
                pass
        out.append((coarse, what, extra))
    return out


def tagsig(spec: dict[str, Any], asg: dict[str, list[list[Any]]] | None, strip: bool) -> str:
    if strip:
        return "stripped"
    if not asg:
        return "baseline"
    byid = {str(n["id"]): n["op"] for n in spec["nodes"]}
    for i in spec["inputs"]:
        byid[str(i["id"])] = "input-" + i.get("kind", "ph")
    parts = sorted({f"{k}@{byid.get(nid, '?')}" for nid, tags in asg.items() for k, _ in tags})
    return ",".join(parts)[:160]


def minimise_assignment(asg: dict[str, list[list[Any]]], fails: Any) -> dict[str, list[list[Any]]]:
    cur = {k: list(v) for k, v in asg.items()}
    changed = True
    while changed:
        changed = False
        for nid in list(cur):
            for j in range(len(cur[nid])):
                cand = {k: list(v) for k, v in cur.items()}
                del cand[nid][j]
                if not cand[nid]:
                    del cand[nid]
                if fails(cand):
                    cur, changed = cand, True
                    break
            if changed:
                break
    return cur


def check_case(case: dict[str, Any], col: common.Collector) -> None:
    spec = case.get("spec")
    if spec is None:
        spec = proggen.generate(case["seed"], case["profile"], opts=OPTS)
    has_dw = any(i["kind"] == "dw" for i in spec["inputs"])
    vset = 1 if (not has_dw and common.rng_for(spec["vseed"], "vs").random() < 0.5) else 0
    ref = spread = None
    for _ in range(3):
        r_, s_, fragile, _p = ps.reference(spec, vset)
        if not fragile:
            ref, spread = r_, s_
            break
        if has_dw:
            break
        vset += 2
    if ref is None:
        col.count("skipped_fragile")
        col.case()
        return
    try:
        base = run_variant(spec, None, False, vset)
    except Exception as e:  # noqa: BLE001  -- C01's business
        col.histo("baseline_failed", type(e).__name__)
        col.case()
        return
    if base["status"] != "ok":
        col.histo("baseline_failed", base["status"])
        col.case()
        return
    # the baseline itself must agree with NumPy (otherwise it is C01's case, not C07's)
    from vf.oracle import compare as _cmp
    for name, got in base["outputs"].items():
        with np.errstate(all="ignore"):
            want = ref[name].astype(got.dtype) if name in ref else None
        if want is None or got.shape != want.shape or \
                not _cmp.close_ulps(got, want, 16.0, err=8.0 * spread[name]):
            col.histo("baseline_failed", "disagrees-with-numpy")
            col.case()
            return
    col.count("mon.baselines")
    rng = common.rng_for(spec["vseed"], "c07-asg")
    variants: list[tuple[dict[str, Any] | None, bool]] = [(None, True)]
    if "asg" in case:
        variants = [(case["asg"], bool(case.get("strip")))]
    else:
        for k in range(case.get("nvar", 6)):
            variants.append((random_assignment(spec, rng, k), False))
    sh = common.stable_hash(spec)
    for asg, strip in variants:
        wit = {"spec": spec, "asg": asg, "strip": strip, "vset": vset}
        try:
            var = run_variant(spec, asg, strip, vset)
        except Exception as e:  # noqa: BLE001
            col.violation(f"C07:variant-crashes:{type(e).__name__}@{common.exc_site(e)}:"
                          f"{tagsig(spec, asg, strip)}",
                          f"tagged variant raised {type(e).__name__}: {str(e)[:160]}", wit)
            continue
        col.histo("variant_status", var["status"])
        if var["status"] == "named-conflict":
            continue                      # legal (C15)
        if var["status"] == "tag-refused":
            col.histo("tag_refused", f"{var['kind']}:{type(var['exc']).__name__}")
            continue
        probs: list[tuple[str, str, dict[str, Any]]] = []
        if var["status"] == "fail":
            from vf.checks import c01
            lim = c01.loopy_limitation(var["stage"], var.get("exc"), var.get("detail") or "",
                                       var.get("bp"))
            if lim is None and var["stage"] in ("gcc", "loopy-codegen") and var.get("bp"):
                try:
                    tb = c01.trusted_base_signatures(var["bp"].program, var["bp"])
                except Exception:  # noqa: BLE001
                    tb = set()
                if tb:
                    lim = "+".join(sorted(tb))
            if lim is not None:
                # the tag assignment only exposes a construct loopy mistranslates
                col.histo("trusted_base_disagreements", f"{var['stage']}:{lim}")
                continue
            exc = var.get("exc")
            site = common.exc_site(exc) if exc is not None else "gcc"
            probs.append((f"C07:codegen:{var['stage']}:{type(exc).__name__ if exc else 'gcc'}"
                          f"@{site}", "tagged variant fails code generation while the untagged "
                          f"program succeeds: {str(exc)[:160] if exc else var['detail'][-200:]}",
                          {}))
        else:
            col.count("mon.variant_value_oracle", len(var["outputs"]))
            if var.get("interp_outputs") is not None:
                col.count("mon.variants_interpreted")
            for kk, vv in var.get("applied", {}).items():
                col.histo("tags_applied", kk, vv)
            probs = compare_variant(spec, base, var, ref, spread)
            differs = var["structure"] != base["structure"]
            if differs:
                col.count("mon.structure_differs")
            col.case(common.stable_hash([sh, asg, strip]), differs,
                     {"ops": ps.node_kinds(spec), "assignment": asg, "stripped": strip,
                      "structure": {k: (v if isinstance(v, int) else len(v))
                                    for k, v in var["structure"].items()},
                      "baseline_structure": {k: (v if isinstance(v, int) else len(v))
                                             for k, v in base["structure"].items()}})
        probs = attribute(spec, asg, var, probs, ref, spread, vset, col)
        for coarse, what, extra in probs:
            a2 = asg
            if asg and not strip:
                def fails(cand: dict[str, list[list[Any]]]) -> bool:
                    try:
                        v2 = run_variant(spec, cand, False, vset)
                    except Exception:  # noqa: BLE001
                        return False
                    if v2["status"] == "fail":
                        e2 = v2.get("exc")
                        s2 = common.exc_site(e2) if e2 is not None else "gcc"
                        return coarse == (f"C07:codegen:{v2['stage']}:"
                                          f"{type(e2).__name__ if e2 else 'gcc'}@{s2}")
                    if v2["status"] != "ok":
                        return False
                    return any(c == coarse for c, _, _ in
                               compare_variant(spec, base, v2, ref, spread))
                try:
                    a2 = minimise_assignment(asg, fails)
                except Exception:  # noqa: BLE001
                    a2 = asg
            if a2 is not asg and a2:
                # attribution once more on the minimal assignment (its kernel is simpler and
                # more often within the kernel-level interpreter's reach)
                try:
                    v3 = run_variant(spec, a2, False, vset)
                    if v3["status"] == "ok":
                        p3 = compare_variant(spec, base, v3, ref, spread)
                        p3 = attribute(spec, a2, v3, p3, ref, spread, vset, col)
                        if not any(c == coarse for c, _w, _e in p3):
                            continue
                except Exception:  # noqa: BLE001
                    pass
            col.violation(f"{coarse}:{tagsig(spec, a2, strip)}", what,
                          {**wit, "asg": a2, **extra})


# ---------------------------------------------------------------------------
# symbolic-shape programs

def sym_variant(spec: dict[str, Any], asg: dict[str, list[list[Any]]] | None,
                vals: list[dict[str, int]]) -> dict[str, Any]:
    import pytato as pt
    from vf.exec import ctarget
    from vf.gen import symgen
    applied: dict[str, int] = {}
    try:
        sb = symgen.SymBuild(spec, post=make_post(asg, applied) if asg else None)
    except TagApplyError as e:
        return {"status": "tag-refused", "kind": e.kind, "exc": e.exc}
    dag = pt.transform.deduplicate(pt.make_dict_of_named_arrays(sb.outputs()))
    try:
        bp = ctarget.generate(dag)
    except ctarget.CodegenFailure as f:
        if isinstance(f.exc, ValueError) and "conflicts with an existing name" in str(f.exc):
            return {"status": "named-conflict"}
        return {"status": "fail", "stage": f.stage, "exc": f.exc, "detail": f.detail}
    try:
        cp = ctarget.compile_program(bp)
    except ctarget.CodegenFailure as f:
        return {"status": "fail", "stage": f.stage, "exc": f.exc, "detail": f.detail, "bp": bp}
    knl = bp.program.default_entrypoint
    runs: list[dict[str, Any] | None] = []
    for val in vals:
        conc = symgen.instantiate(spec, val)
        iv = ps.input_values(conc, 0)
        env: dict[str, Any] = {i["name"]: iv[i["id"]] for i in conc["inputs"]}
        env.update(val)
        env = {k: v for k, v in env.items() if k in knl.arg_dict}
        try:
            rr = ctarget.run(cp, bp, env)
            runs.append({"outputs": rr.outputs, "canary": rr.canary_violations})
        except ctarget.KernelContractError as e:
            runs.append({"contract": str(e)[:160]})
    return {"status": "ok", "runs": runs, "structure": structure(bp), "bp": bp,
            "applied": applied}


def sym_problems(base: dict[str, Any], var: dict[str, Any], vals: list[dict[str, int]],
                 spreads: list[Any]) -> list[tuple[str, str, dict[str, Any]]]:
    from vf.oracle import compare
    out: list[tuple[str, str, dict[str, Any]]] = []
    for val, rb, rv, spread in zip(vals, base["runs"], var["runs"], spreads):
        if "contract" in rb or spread is None:
            continue
        if "contract" in rv:
            out.append(("C07:sym:kernel-interface", rv["contract"], {"valuation": val}))
            continue
        if set(rv["outputs"]) != set(rb["outputs"]):
            out.append(("C07:sym:output-names", f"{sorted(rv['outputs'])} vs baseline "
                        f"{sorted(rb['outputs'])}", {"valuation": val}))
            continue
        if rv["canary"] and not rb["canary"]:
            out.append(("C07:sym:out-of-bounds-write", f"buffers {rv['canary']}",
                        {"valuation": val}))
        for name, got in rv["outputs"].items():
            b0 = rb["outputs"][name]
            if got.shape != b0.shape or got.dtype != b0.dtype:
                out.append(("C07:sym:shape-dtype", f"output {name}: {got.dtype}{got.shape} vs "
                            f"baseline {b0.dtype}{b0.shape} at {val}", {"valuation": val}))
            elif not compare.close_ulps(got, b0, 8.0, err=2.0 * spread[name]):
                out.append(("C07:sym:value-vs-baseline", f"output {name} differs from the "
                            f"untagged parametric kernel at sizes {val}",
                            {"valuation": val, "output": name,
                             "diff": compare.describe_diff(got, b0)}))
    return out


def codegen_problem(var: dict[str, Any], col: common.Collector, prefix: str
                    ) -> list[tuple[str, str, dict[str, Any]]]:
    """A failing variant: [] when the failure is the trusted base's (positive evidence)."""
    from vf.checks import c01
    lim = c01.loopy_limitation(var["stage"], var.get("exc"), var.get("detail") or "",
                               var.get("bp"))
    if lim is None and var["stage"] in ("gcc", "loopy-codegen") and var.get("bp"):
        try:
            tb = c01.trusted_base_signatures(var["bp"].program, var["bp"])
        except Exception:  # noqa: BLE001
            tb = set()
        if tb:
            lim = "+".join(sorted(tb))
    if lim is not None:
        col.histo("trusted_base_disagreements", f"{var['stage']}:{lim}")
        return []
    exc = var.get("exc")
    site = common.exc_site(exc) if exc is not None else "gcc"
    return [(f"{prefix}:{var['stage']}:{type(exc).__name__ if exc else 'gcc'}@{site}",
             "tagged variant fails code generation while the untagged program succeeds: "
             f"{str(exc)[:160] if exc else var['detail'][-200:]}", {})]


def check_sym_case(case: dict[str, Any], col: common.Collector) -> None:
    from vf.checks import c01
    from vf.gen import symgen
    spec = case.get("spec") or symgen.generate(case["seed"])
    params = spec["params"]
    rng = common.rng_for(spec["vseed"], "c07-sym")
    vals = case.get("valuations")
    if vals is None:
        vals = [dict.fromkeys(params, 3)]
        vals += [{p: rng.randrange(0, 7) for p in params} for _ in range(2)]
    # (an integer zero divisor at some size is a SIGFPE in the binary: leave that size out)
    vals = [v for v in vals if not ps.integer_zero_divisor(symgen.instantiate(spec, v), 0)]
    if not vals:
        col.count("skipped_zero_divisor")
        col.case()
        return
    try:
        base = sym_variant(spec, None, vals)
    except Exception as e:  # noqa: BLE001  -- C16's business
        col.histo("sym_baseline_failed", type(e).__name__)
        col.case()
        return
    if base["status"] != "ok":
        col.histo("sym_baseline_failed", base["status"])
        col.case()
        return
    try:
        if c01.trusted_base_signatures(base["bp"].program, base["bp"]):
            col.histo("sym_baseline_failed", "trusted-base-construct")
            col.case()
            return
    except Exception:  # noqa: BLE001
        pass
    spreads: list[Any] = []
    from vf.oracle import compare as _cmp
    for val, rb in zip(vals, base["runs"]):
        conc = symgen.instantiate(spec, val)
        try:
            r_, sp, fragile, _p = ps.reference(conc, 0)
        except Exception:  # noqa: BLE001
            r_, sp, fragile = None, None, True
        if not fragile and "outputs" in rb:
            # as in the static case: the untagged kernel itself must agree with NumPy at
            # this size (otherwise the case is C01's / C16's, not a tag's)
            for name, got in rb["outputs"].items():
                with np.errstate(all="ignore"):
                    want = r_[name].astype(got.dtype) if name in r_ else None
                if want is None or got.shape != want.shape or \
                        not _cmp.close_ulps(got, want, 16.0, err=8.0 * sp[name]):
                    fragile = True
                    col.histo("sym_baseline_failed", "disagrees-with-numpy-at-size")
                    break
        spreads.append(None if fragile else sp)
    if all(sp is None for sp in spreads):
        col.count("skipped_fragile")
        col.case()
        return
    col.count("mon.sym_baselines")
    if "asg" in case:
        variants = [case["asg"]]
    else:
        arng = common.rng_for(spec["vseed"], "c07-sym-asg")
        variants = [random_assignment(spec, arng, k) for k in range(case.get("nvar", 4))]
    sh = common.stable_hash(spec)
    for asg in variants:
        wit = {"sym": True, "spec": spec, "asg": asg, "valuations": vals}

        def problems(a: Any) -> tuple[dict[str, Any], list[tuple[str, str, dict[str, Any]]]]:
            v = sym_variant(spec, a, vals)
            if v["status"] == "fail":
                return v, codegen_problem(v, col, "C07:sym:codegen")
            if v["status"] != "ok":
                return v, []
            pr = sym_problems(base, v, vals, spreads)
            if pr and c01.trusted_base_signatures(v["bp"].program, v["bp"]):
                col.histo("trusted_base_disagreements", "sym-values")
                pr = []
            return v, pr
        try:
            var, probs = problems(asg)
        except Exception as e:  # noqa: BLE001
            col.violation(f"C07:sym:variant-crashes:{type(e).__name__}@{common.exc_site(e)}:"
                          f"{tagsig(spec, asg, False)}",
                          f"tagged variant raised {type(e).__name__}: {str(e)[:160]}", wit)
            continue
        col.histo("sym_variant_status", var["status"])
        if var["status"] == "tag-refused":
            col.histo("tag_refused", f"{var['kind']}:{type(var['exc']).__name__}")
        if var["status"] == "ok":
            col.count("mon.sym_variant_value_oracle",
                      sum(len(r.get("outputs", ())) for r in var["runs"]))
            differs = var["structure"] != base["structure"]
            if differs:
                col.count("mon.structure_differs")
            col.case(common.stable_hash([sh, asg, "sym"]), differs,
                     {"ops": ps.node_kinds(spec), "assignment": asg, "params": params,
                      "valuations": vals, "symbolic": True})
        for coarse, what, extra in probs:
            def fails(cand: dict[str, list[list[Any]]]) -> bool:
                try:
                    return any(c == coarse for c, _w, _e in problems(cand)[1])
                except Exception:  # noqa: BLE001
                    return False
            try:
                a2 = minimise_assignment(asg, fails) if asg else asg
            except Exception:  # noqa: BLE001
                a2 = asg
            col.violation(f"{coarse}:{tagsig(spec, a2, False)}", what,
                          {**wit, "asg": a2, **extra})


def run_shard(shard: dict[str, Any], col: common.Collector) -> None:
    for case in shard["cases"]:
        try:
            with common.time_limit(180):
                if case.get("sym"):
                    check_sym_case(case, col)
                else:
                    check_case(case, col)
        except common.Timeout:
            col.count("program_timeouts")
        except Exception as e:  # noqa: BLE001
            import traceback
            col.violation(f"C07:harness-exception:{type(e).__name__}@"
                          f"{common.exc_site(e, ('vf',))}",
                          f"unexpected {type(e).__name__}: {str(e)[:200]}",
                          {"case": case, "tb": traceback.format_exc()[-2000:]})
        finally:
            pass


def replay(witness: dict[str, Any], col: common.Collector) -> None:
    if witness.get("sym"):
        check_sym_case({"sym": True, "spec": witness["spec"], "asg": witness.get("asg"),
                        "valuations": witness.get("valuations")}, col)
    elif "spec" in witness:
        check_case({"spec": witness["spec"], "asg": witness.get("asg"),
                    "strip": witness.get("strip")}, col)
    else:
        check_case(witness["case"], col)
