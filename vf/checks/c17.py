"""C17 -- code generation, partitioning and tag numbering are process-independent.

The same program texts (ProgSpecs of C01's space, multi-rank descriptions of C08's space)
are handed to several fresh interpreter processes that differ in PYTHONHASHSEED and in
allocation history (other graphs are built and discarded first, inputs are created in
another order where the text leaves it open).  Every process emits, per program:

  kernel   canonical description of the loopy kernel (arguments, domains, instructions,
           substitution rules, temporaries, iname tags)
  c        the C source loopy generates for it
  python   the source generate_numpy_like emits, its expected and bound argument names
  parts    per-rank partition summaries (parts, names, recv/send tables, expression
           fingerprints) from the simulated MPI
  tags     the symbolic -> integer tag map of number_distributed_tags and next_tag

and each artefact a second time in the same process.  The parent compares byte for byte.
"""
from __future__ import annotations

import hashlib
import json
import os
import re
import subprocess
import sys
import tempfile
from typing import Any

from vf import common

LEVEL = "exploration"
RULE = ("artefact(program, process p) == artefact(program, process q) for all hash seeds and "
        "allocation histories; artefact produced twice in one process is identical")
ASSUMPTIONS = ["object addresses and set/dict orders vary with PYTHONHASHSEED and with the "
               "allocation history forced by building unrelated graphs first",
               "loopy's own code generation is deterministic for a fixed kernel (a difference "
               "in the C text with equal kernel descriptions would be attributed to loopy)"]
MIN_MONITOR = {"mon.programs": 150, "mon.artefacts_compared": 1500, "mon.processes": 16,
               "mon.dist_programs": 60}
SHARD_TIMEOUT = {"quick": 1500, "thorough": 7200}
N_PROGRAMS = {"quick": 256, "thorough": 4000}
N_DIST = {"quick": 128, "thorough": 2400}
N_PROCS = {"quick": 3, "thorough": 6}
PROFILES = ["mixed", "index", "reduce", "einsum", "zero", "elementwise"]
OPTS = {"dw_prob": 0.3}


def plan(tier: str, seed: int) -> list[dict[str, Any]]:
    rng = common.rng_for(seed, "c17")
    progs = [{"kind": "prog", "seed": rng.getrandbits(31), "profile": PROFILES[i % len(PROFILES)]}
             for i in range(N_PROGRAMS[tier])]
    dist = [{"kind": "dist", "seed": rng.getrandbits(31)} for _ in range(N_DIST[tier])]
    n = common.NCPU // 2 * (1 if tier == "quick" else 3)
    a = common.split_even(progs, n)
    b = common.split_even(dist, n)
    a[0] = directed() + directed_dist() + a[0]
    return [{"cases": a[i] + b[i], "idx": i, "nprocs": N_PROCS[tier],
             "hashseeds": [0, 1, 2, 3, 97, 12345][:N_PROCS[tier]]} for i in range(n)]


def directed_dist() -> list[dict[str, Any]]:
    """Two-rank programs in which SEVERAL stored arrays of an early part are needed by
    several stored arrays of a later part and are not sent themselves: all of them are
    promoted to part outputs (order of the generated names) -- with string tags."""
    out = []
    for j, k in enumerate((3, 5)):
        items: list[dict[str, Any]] = []

        def add(it: dict[str, Any], items: list[dict[str, Any]] = items) -> int:
            it["id"] = len(items)
            items.append(it)
            return int(it["id"])
        x = add({"rank": 0, "kind": "in", "name": "r0_x", "shape": [4]})
        y = add({"rank": 1, "kind": "in", "name": "r1_y", "shape": [4]})
        a_ = [add({"rank": 0, "kind": "op", "op": "mul", "args": [x, float(i + 2)],
                   "stored": True}) for i in range(k)]
        tot = a_[0]
        for i in a_[1:]:
            tot = add({"rank": 0, "kind": "op", "op": "add", "args": [tot, i], "stored": False})
        t1, t2 = ["str", f"fwd{j}"], ["str", f"back{j}"]
        s0 = add({"rank": 0, "kind": "send", "comm": 0, "dest": 1, "tag": t1, "data": tot,
                  "stapled": x})
        r1 = add({"rank": 1, "kind": "recv", "comm": 0, "src": 0, "tag": t1, "shape": [4]})
        z = add({"rank": 1, "kind": "op", "op": "add", "args": [r1, y], "stored": False})
        s1 = add({"rank": 1, "kind": "send", "comm": 1, "dest": 0, "tag": t2, "data": z,
                  "stapled": y})
        r0 = add({"rank": 0, "kind": "recv", "comm": 1, "src": 1, "tag": t2, "shape": [4]})
        c_ = [add({"rank": 0, "kind": "op", "op": "add", "args": [r0, i], "stored": True})
              for i in a_]
        outs0 = {f"c{i}": c for i, c in enumerate(c_)}
        outs0["h"] = s0
        desc = {"nranks": 2, "n": 4, "items": items, "seed": 9900 + j, "pattern": "directed",
                "outputs": {"0": outs0, "1": {"w": s1}}}
        out.append({"kind": "dist", "desc": desc})
    return out


def directed() -> list[dict[str, Any]]:
    """Programs with ties the text leaves open: several outputs that are sub-expressions of
    another output (order of stores / arguments), many same-level bindings, several wrapped
    arrays, outputs whose names sort differently from their creation order."""
    from vf.gen import progspec as ps
    out = []
    for j, names in enumerate((["alpha", "beta", "delta", "gamma"], ["z", "y", "x", "w"],
                               ["out10", "out9", "out1", "out2"])):
        inputs = [{"id": i, "kind": "ph" if i < 2 else "dw", "shape": [3], "dtype": "float64",
                   "pool": "dyadic", "name": f"x{i}"} for i in range(4)]
        nodes = [{"id": 4, "op": "mul", "args": [0, ps.enc_scalar(2.0)], "params": {}},
                 {"id": 5, "op": "add", "args": [1, 2], "params": {}},
                 {"id": 6, "op": "sub", "args": [3, 0], "params": {}},
                 {"id": 7, "op": "mul", "args": [5, 6], "params": {}},
                 {"id": 8, "op": "add", "args": [4, 7], "params": {}}]
        spec = {"inputs": inputs, "nodes": nodes,
                "outputs": {names[0]: 4, names[1]: 5, names[2]: 6, names[3]: 8},
                "vseed": 7700 + j, "profile": "directed"}
        out.append({"kind": "prog", "spec": spec})
    # hand-written loopy kernels with TWO results, both used (results are held in a set of
    # names inside the call node): one call and two calls
    for j in range(2):
        inputs = [{"id": 0, "kind": "ph", "shape": [3], "dtype": "float64", "pool": "dyadic",
                   "name": "x0"},
                  {"id": 1, "kind": "ph", "shape": [4], "dtype": "float64", "pool": "dyadic",
                   "name": "x1"}]
        nodes = [{"id": 2, "op": "call_loopy", "args": [0, 1], "params": {"kernel": "outer"}},
                 {"id": 3, "op": "getitem_named", "args": [2], "params": {"name": "out"}},
                 {"id": 4, "op": "getitem_named", "args": [2], "params": {"name": "out2"}},
                 {"id": 5, "op": "sum", "args": [3], "params": {"axis": [1]}},
                 {"id": 6, "op": "sub", "args": [5, 4], "params": {}}]
        outs = {"diff": 6}
        if j == 1:
            nodes += [{"id": 7, "op": "call_loopy", "args": [4, 0], "params": {"kernel": "outer"}},
                      {"id": 8, "op": "getitem_named", "args": [7], "params": {"name": "out2"}},
                      {"id": 9, "op": "getitem_named", "args": [7], "params": {"name": "out"}},
                      {"id": 10, "op": "sum", "args": [9], "params": {"axis": [0]}},
                      {"id": 11, "op": "add", "args": [8, 10], "params": {}}]
            outs["second"] = 11
        out.append({"kind": "prog", "spec": {"inputs": inputs, "nodes": nodes, "outputs": outs,
                                             "vseed": 7800 + j, "profile": "directed"}})
    # the same shape of program over a different kernel that carries the same NAME: every
    # second child generates its cases in reverse order, so the two meet in both orders
    inputs = [{"id": 0, "kind": "ph", "shape": [3], "dtype": "float64", "pool": "dyadic",
               "name": "x0"},
              {"id": 1, "kind": "ph", "shape": [4], "dtype": "float64", "pool": "dyadic",
               "name": "x1"}]
    nodes = [{"id": 2, "op": "call_loopy", "args": [0, 1], "params": {"kernel": "outer_twin"}},
             {"id": 3, "op": "getitem_named", "args": [2], "params": {"name": "out"}},
             {"id": 4, "op": "getitem_named", "args": [2], "params": {"name": "out2"}},
             {"id": 5, "op": "sum", "args": [3], "params": {"axis": [1]}},
             {"id": 6, "op": "add", "args": [5, 4], "params": {}}]
    out.append({"kind": "prog", "spec": {"inputs": inputs, "nodes": nodes, "outputs": {"t": 6},
                                         "vseed": 7810, "profile": "directed"}})
    return out


# ------------------------------------------------------------------ child

_ANSI = re.compile(r"\x1b\[[0-9;]*m")


def kernel_description(t_unit: Any) -> str:
    """Canonical text of the kernel: every component the generated code depends on, with
    the components loopy itself keeps in (frozen)sets sorted -- str(kernel) prints those in
    set order, which is loopy's presentation, not the kernel."""
    import loopy as lp
    L: list[str] = []
    names = sorted(n for n, c in t_unit.callables_table.items()
                   if isinstance(c, lp.kernel.function_interface.CallableKernel))
    for nm in names:
        L.extend(_one_kernel(t_unit[nm]))
    return "\n".join(L)


def _one_kernel(knl: Any) -> list[str]:
    L: list[str] = [f"KERNEL {knl.name}"]
    for a in knl.args:
        L.append("ARG " + _ANSI.sub("", str(a)))
    for d in knl.domains:
        L.append("DOMAIN " + str(d))
    for n in sorted(knl.temporary_variables):
        L.append("TEMP " + _ANSI.sub("", str(knl.temporary_variables[n])))
    for n in sorted(knl.substitutions):
        r = knl.substitutions[n]
        L.append(f"SUBST {r.name}({', '.join(r.arguments)}) := {r.expression}")
    for n in sorted(knl.inames):
        L.append(f"INAME {n} tags={sorted(repr(t) for t in knl.inames[n].tags)}")
    for insn in knl.instructions:         # instruction ORDER is part of the artefact
        L.append(f"INSN {insn.id}: {getattr(insn, 'assignees', '')} <- "
                 f"{getattr(insn, 'expression', type(insn).__name__)} "
                 f"within={sorted(insn.within_inames)} deps={sorted(insn.depends_on)} "
                 f"tags={sorted(repr(t) for t in insn.tags)} "
                 f"preds={sorted(str(p) for p in insn.predicates)}")
    return L


def artefacts(case: dict[str, Any]) -> dict[str, str]:
    import pytato as pt
    out: dict[str, str] = {}
    if case["kind"] == "prog":
        from vf.exec import ctarget
        from vf.gen import proggen
        from vf.gen import progspec as ps
        spec = case.get("spec") or proggen.generate(case["seed"], case["profile"], opts=OPTS)
        try:
            b = ps.PtBuild(spec)
            dag = pt.transform.deduplicate(pt.make_dict_of_named_arrays(b.outputs()))
        except Exception as e:  # noqa: BLE001
            return {"build": f"ERR {type(e).__name__}"}
        try:
            bp = ctarget.generate(dag)
            out["kernel"] = kernel_description(bp.program)
            out["bound"] = repr(sorted(bp.bound_arguments))
            try:
                code, _t = ctarget.gen_c(bp.program)
                out["c"] = code
            except ctarget.CodegenFailure as f:
                out["c"] = f"ERR {f.stage} {type(f.exc).__name__ if f.exc else ''}"
        except ctarget.CodegenFailure as f:
            out["kernel"] = f"ERR {f.stage} {type(f.exc).__name__ if f.exc else ''}"
        try:
            from pytato.target.python.numpy_like import generate_numpy_like
            from vf.checks.c14 import numpy_target
            prg = generate_numpy_like(dag, target=numpy_target(), function_name="_pt_kernel",
                                      show_code=False, entrypoint_decorators=(),
                                      extra_preambles=())
            out["python"] = prg.program
            out["python_args"] = repr((list(prg.expected_arguments)
                                       if not isinstance(prg.expected_arguments, (set, frozenset))
                                       else sorted(prg.expected_arguments),
                                       sorted(prg.bound_arguments)))
        except Exception as e:  # noqa: BLE001
            out["python"] = f"ERR {type(e).__name__}"
    else:
        from vf import simmpi
        from vf.checks import c09
        from vf.exec import distrun
        from vf.gen import distgen
        desc = case.get("desc") or distgen.generate(case["seed"])
        pr = distrun.partition_all(desc, simmpi.RandomChooser(desc["seed"], "uniform"))
        if pr.errors or len(pr.partitions) != desc["nranks"]:
            return {"parts": "ERR " + repr(sorted((r, type(e).__name__)
                                                  for r, e in pr.errors.items()))
                    + f" returned={sorted(pr.partitions)}"}
        out["parts"] = json.dumps({str(r): c09.summary(p) for r, p in
                                   sorted(pr.partitions.items())}, sort_keys=True)
        tagmap = {}
        for r in sorted(pr.partitions):
            praw, pnum = pr.raw_partitions[r], pr.partitions[r]
            for pid in sorted(praw.parts):
                for n, rv in sorted(praw.parts[pid].name_to_recv_node.items()):
                    tagmap[f"{rv.src_rank}->{r}:{distgen.canon_tag(rv.comm_tag)}"] = \
                        pnum.parts[pid].name_to_recv_node[n].comm_tag
        out["tags"] = json.dumps([tagmap, sorted(pr.next_tag.items())], sort_keys=True)
    return out


def _child(inp: str, outp: str, history: int) -> None:
    common.repo_setup()
    import pytato as pt
    import numpy as np
    # a different allocation history: build and keep/discard unrelated graphs first
    keep = []
    for j in range(history * 3):
        x = pt.make_placeholder(f"h{j}", (j + 1, 2), np.float64)
        y = pt.sum(x + j, axis=0) * pt.make_data_wrapper(np.arange(2.0) + j)
        if j % 2:
            keep.append(y)
    with open(inp) as fh:
        cases = json.load(fh)
    res = []
    # the HISTORY of a process is part of "the process": odd children work through the
    # cases in reverse order (results are matched by case, not by position)
    order = list(range(len(cases)))
    if history % 2:
        order.reverse()
    by_pos: dict[int, Any] = {}
    for pos in order:
        case = cases[pos]
        try:
            a1 = artefacts(case)
            a2 = artefacts(case)
        except Exception as e:  # noqa: BLE001
            a1 = a2 = {"crash": f"{type(e).__name__}: {str(e)[:120]}"}
        rec = {"first": {k: hashlib.sha1(v.encode()).hexdigest() for k, v in a1.items()},
               "second": {k: hashlib.sha1(v.encode()).hexdigest() for k, v in a2.items()},
               "text": a1}
        by_pos[pos] = rec
    res = [by_pos[i] for i in range(len(cases))]
    del keep
    with open(outp, "w") as fh:
        json.dump(res, fh)


# ------------------------------------------------------------------ parent

def first_diff(a: str, b: str) -> str:
    la, lb = a.splitlines(), b.splitlines()
    for i, (x, y) in enumerate(zip(la, lb)):
        if x != y:
            return f"line {i}: {x[:160]!r} vs {y[:160]!r}"
    return f"length {len(la)} vs {len(lb)} lines"


def classify(kind: str, a: str, b: str) -> str:
    """Mechanism-ish class of a difference: which sort of line differs."""
    la, lb = a.splitlines(), b.splitlines()
    for x, y in zip(la, lb):
        if x != y:
            if kind == "python":
                if x.lstrip().startswith("def "):
                    return "function-signature"
                return "statement"
            if kind in ("kernel", "c"):
                toks = re.findall(r"[A-Za-z_][A-Za-z_0-9]*", x)
                toks2 = re.findall(r"[A-Za-z_][A-Za-z_0-9]*", y)
                if sorted(toks) == sorted(toks2):
                    return "order-of-terms"
                if re.sub(r"\d+", "N", x) == re.sub(r"\d+", "N", y):
                    return "numbering-of-names"
                return "line"
            return "content"
    return "length"


def run_shard(shard: dict[str, Any], col: common.Collector) -> None:
    cases = shard["cases"]
    root = os.path.dirname(os.path.dirname(os.path.dirname(os.path.abspath(__file__))))
    d = tempfile.mkdtemp(prefix="vf-c17-")
    try:
        inp = os.path.join(d, "cases.json")
        with open(inp, "w") as fh:
            json.dump(cases, fh)
        procs = []
        for j, hs in enumerate(shard["hashseeds"]):
            env = dict(os.environ, PYTHONHASHSEED=str(hs), LOOPY_NO_CACHE="1",
                       PYTHONPATH=os.pathsep.join([root, os.environ.get("PYTHONPATH", "")]))
            outp = os.path.join(d, f"out{j}.json")
            procs.append((hs, outp, subprocess.Popen(
                [sys.executable, "-m", "vf.checks.c17", "--child", inp, outp, str(j)],
                env=env, stdout=subprocess.PIPE, stderr=subprocess.PIPE)))
        results = []
        for hs, outp, p in procs:
            try:
                _o, err = p.communicate(timeout=1200)
            except subprocess.TimeoutExpired:
                p.kill()
                col.inconc(f"child with PYTHONHASHSEED={hs} timed out")
                return
            if not os.path.exists(outp):
                col.violation("C17:harness:child-failed", err.decode()[-400:], {"hashseed": hs})
                return
            with open(outp) as fh:
                results.append((hs, json.load(fh)))
            col.count("mon.processes")
        base_hs, base = results[0]
        for i, case in enumerate(cases):
            col.count("mon.programs" if case["kind"] == "prog" else "mon.dist_programs")
            recs = [(hs, r[i]) for hs, r in results]
            wit = {"case": case}
            differs = False
            for hs, rec in recs:
                for k in rec["first"]:
                    col.count("mon.artefacts_compared")
                    if rec["first"][k] != rec["second"].get(k):
                        col.violation(f"C17:differs-within-one-process:{k}",
                                      f"{k} generated twice in one process "
                                      f"(PYTHONHASHSEED={hs}) differs", {**wit, "hashseed": hs})
                        differs = True
            ref = recs[0][1]
            for hs, rec in recs[1:]:
                if set(rec["first"]) != set(ref["first"]):
                    col.violation("C17:different-artefact-sets",
                                  f"{sorted(rec['first'])} vs {sorted(ref['first'])}",
                                  {**wit, "hashseeds": [base_hs, hs]})
                    continue
                for k in ref["first"]:
                    col.count("mon.artefacts_compared")
                    if rec["first"][k] != ref["first"][k]:
                        differs = True
                        a, b = ref["text"][k], rec["text"][k]
                        if k == "c" and rec["first"].get("kernel") == ref["first"].get("kernel"):
                            # the translation unit pytato built (entrypoint and every callee
                            # kernel) is identical; only loopy's C text differs (it names
                            # specialised callees in hash order)
                            col.histo("trusted_base_disagreements",
                                      "loopy:C-text-differs-for-identical-translation-unit:"
                                      + classify(k, a, b))
                            continue
                        cls = classify(k, a, b)
                        col.violation(f"C17:differs-between-processes:{k}:{cls}",
                                      f"{k} differs between PYTHONHASHSEED={base_hs} and {hs}: "
                                      f"{first_diff(a, b)}",
                                      {**wit, "hashseeds": [base_hs, hs]})
                        break
            arts = sorted(ref["first"])
            col.case(common.stable_hash(case), not any(
                ref["text"][k].startswith("ERR") for k in arts),
                {"case": case, "artefacts": arts, "differs": differs})
            for k in arts:
                col.histo("artefacts", k + (":ERR" if ref["text"][k].startswith("ERR") else ""))
    finally:
        import shutil
        shutil.rmtree(d, ignore_errors=True)


def replay(witness: dict[str, Any], col: common.Collector) -> None:
    run_shard({"cases": [witness["case"]], "idx": 0, "nprocs": 4,
               "hashseeds": [0, 1, 2, 97]}, col)


if __name__ == "__main__":
    if "--child" in sys.argv:
        i = sys.argv.index("--child")
        _child(sys.argv[i + 1], sys.argv[i + 2], int(sys.argv[i + 3]))
