"""C20 -- graph analyses agree with the graph and with each other.

Every analysis is run on every corpus graph (hash-consed, and with one cloned twin); its
return value is compared with sets computed by a dataclass-reflection walk that shares no
code with the mappers, and with the other analyses:

  preds   ListOfDirectPredecessorsGetter / DirectPredecessorsGetter per node
  users1  get_list_of_users / get_nusers     (ListOfUsersCollector)
  users2  get_users / rec_get_user_nodes     (UsersCollector)
  topo    TopoSortMapper
  counts  get_num_nodes(dups / nodups), get_node_type_counts, get_node_multiplicities,
          get_num_call_sites
  tags    get_num_tags_of_type for one and two tag types on randomly tagged graphs
  mat     collect_materialized_nodes(include_outputs = True / False)

Edge conventions that a class DOCUMENTS are encoded in CONVENTIONS; everything else that
differs is a violation keyed (analysis, node kind, edge kind).
"""
from __future__ import annotations

from typing import Any

from vf import common
from vf.gen import graphs

LEVEL = "exploration"
RULE = ("users == converse(predecessors) with multiplicity; three users implementations "
        "agree; topological order respects every reflective edge; counts == distinct "
        "nodes/objects; tag counts == tagged nodes; materialised == inputs + received + "
        "call-bound + stored (+ outputs)")
ASSUMPTIONS = ["structural equality/hash of nodes is as checked by C04",
               "an explicit NotImplementedError naming functions/calls is a declared "
               "refusal, counted not judged"]
MIN_MONITOR = {"mon.preds": 2000, "mon.users1": 300, "mon.users2": 300, "mon.topo": 200,
               "mon.counts": 300, "mon.tags": 300, "mon.materialized": 300}
N_GRAPHS = {"quick": 4000, "thorough": 20000}
SHARD_TIMEOUT = {"quick": 900, "thorough": 3000}


def plan(tier: str, seed: int) -> list[dict[str, Any]]:
    descs = graphs.descriptors(common.sub_seed(seed, "c20") & 0x7FFFFFFF, N_GRAPHS[tier])
    for i, d in enumerate(descs):
        d["dw"] = i % 3 == 0          # wrapped data in a third of the generated programs
    n = common.NCPU * (1 if tier == "quick" else 3)
    return [{"descs": c} for c in common.split_even(descs, n)]


# ------------------------------------------------------------------ reflective side

def field_children(v: Any) -> list[tuple[str, Any]]:
    """[(edge kind, child)] over dataclass fields, with multiplicity, not entering
    function bodies."""
    from vf.oracle import reflect
    out = []
    for path, c in reflect.edges(v):
        k = reflect.edge_kind(path)
        if k == "function_body" or k in reflect.MAPPER_INVISIBLE:
            continue
        out.append((k, c))
    return out


def derived_shape_children(v: Any) -> list[Any]:
    import dataclasses
    import pytato as pt
    if not isinstance(v, pt.Array):
        return []
    names = {f.name for f in dataclasses.fields(v)}
    if "shape" in names:
        return []
    try:
        return [d for d in v.shape if isinstance(d, pt.Array)]
    except Exception:  # noqa: BLE001
        return []


def refusal(e: BaseException) -> bool:
    s = str(e)
    return isinstance(e, NotImplementedError) and (
        "function" in s.lower() or "call" in s.lower())


class G:
    """Reflective view of one graph."""
    def __init__(self, g: Any) -> None:
        import pytato as pt
        from pytato.function import Call, FunctionDefinition
        from vf.oracle import reflect
        self.g = g
        self._dsd: Any = None
        self.nodes = reflect.walk(g, enter_functions=False,      # call-site namespace
                                  skip_kinds=reflect.MAPPER_INVISIBLE)
        self.all_nodes = reflect.walk(g, enter_functions=True,
                                      skip_kinds=reflect.MAPPER_INVISIBLE)
        self.arrays = [n for n in self.nodes if isinstance(n, pt.Array)]
        self.has_calls = any(isinstance(n, Call) for n in self.all_nodes)
        self.fc = {id(n): field_children(n) for n in self.all_nodes}
        self.ds = {id(n): derived_shape_children(n) for n in self.all_nodes}
        self.functions: list[Any] = []
        seen: set[int] = set()
        for n in self.nodes:
            if isinstance(n, Call) and id(n.function) not in seen:
                seen.add(id(n.function))
                self.functions.append(n.function)
        self.all_functions: list[Any] = []
        seen = set()
        for n in self.all_nodes:
            if isinstance(n, Call) and id(n.function) not in seen:
                seen.add(id(n.function))
                self.all_functions.append(n.function)
        del FunctionDefinition


def derived_shape_duplicates(G_: G) -> bool:
    """Does some COMPUTED shape expression (fresh objects on every .shape access) contain a
    node structurally equal to, but distinct from, another node pytato will see?"""
    import pytato as pt
    from vf.oracle import reflect
    if getattr(G_, "_dsd", None) is not None:
        return bool(G_._dsd)
    seen: dict[int, Any] = {}

    def visit(n: Any) -> None:
        if id(n) in seen:
            return
        seen[id(n)] = n
        for path, c in reflect.edges(n):
            if reflect.edge_kind(path) != "function_body":
                visit(c)
        if isinstance(n, pt.Array):
            try:
                for dd in n.shape:
                    if isinstance(dd, pt.Array):
                        visit(dd)
            except Exception:  # noqa: BLE001
                pass
    try:
        visit(G_.g)
        byeq: dict[Any, int] = {}
        for n in seen.values():
            byeq[n] = byeq.get(n, 0) + 1
        G_._dsd = any(v > 1 for v in byeq.values())
    except Exception:  # noqa: BLE001
        G_._dsd = False
    return bool(G_._dsd)


def raise_key(G_: G, e: BaseException, what: str) -> str:
    if isinstance(e, ValueError) and "cache collision" in str(e) and \
            derived_shape_duplicates(G_):
        return f"C20:{what}-raises:collision-with-derived-shape-duplicate"
    return f"C20:{what}-raises:{type(e).__name__}@{common.exc_site(e)}"


def _tname(x: Any) -> str:
    return type(x).__name__


# ------------------------------------------------------------------ the monitors

def check_preds(G_: G, col: common.Collector, wit: dict[str, Any]) -> dict[int, list[Any]]:
    """-> id(node) -> reported predecessor list (or None if refused)."""
    import pytato as pt
    from pytato.analysis import DirectPredecessorsGetter, ListOfDirectPredecessorsGetter
    from pytato.function import Call
    P: dict[int, Any] = {}
    lg = ListOfDirectPredecessorsGetter()
    sg = DirectPredecessorsGetter()
    lgf = ListOfDirectPredecessorsGetter(include_functions=True)
    for v in G_.all_nodes:
        col.count("mon.preds")
        try:
            p = list(lg(v))
        except Exception as e:  # noqa: BLE001
            if refusal(e):
                col.histo("refusals", f"preds:{_tname(v)}")
            else:
                col.violation(raise_key(G_, e, "preds"),
                              f"ListOfDirectPredecessorsGetter raised on a {_tname(v)}: "
                              f"{str(e)[:100]}", wit)
            P[id(v)] = None
            continue
        P[id(v)] = p
        must = [c for _k, c in G_.fc[id(v)]]
        may = G_.ds[id(v)]
        # every field edge reported with its multiplicity
        for k, c in G_.fc[id(v)]:
            want = sum(1 for x in must if x is c)
            got = sum(1 for x in p if x is c)
            extra = sum(1 for x in may if x is c or x == c)
            if got < want:
                col.violation(f"C20:preds-omits:{_tname(v)}.{k}",
                              f"a {_tname(v)}'s {k} child ({_tname(c)}) is reported {got}x "
                              f"as direct predecessor, it occurs {want}x in the fields", wit)
            elif got > want + extra:
                col.violation(f"C20:preds-multiplicity:{_tname(v)}.{k}",
                              f"{_tname(c)} reported {got}x as predecessor of a {_tname(v)}, "
                              f"fields have it {want}x (+{extra} in the shape)", wit)
        for x in p:
            if not any(x is c for c in must) and not any(x is c or x == c for c in may):
                col.violation(f"C20:preds-invents:{_tname(v)}:{_tname(x)}",
                              f"{_tname(x)} reported as predecessor of a {_tname(v)} is "
                              "neither a field child nor a shape component", wit)
        try:
            s = sg(v)
            if set(map(id, s)) != set(map(id, p)) and \
                    {x for x in s} != {x for x in p}:
                col.violation(f"C20:preds-set-vs-list:{_tname(v)}",
                              "DirectPredecessorsGetter is not the set of the list variant",
                              wit)
        except Exception as e:  # noqa: BLE001
            col.violation(f"C20:preds-set-raises:{_tname(v)}:{type(e).__name__}", str(e)[:100],
                          wit)
        if isinstance(v, Call):
            pf = list(lgf(v))
            if not any(x is v.function for x in pf) or len(pf) != len(p) + 1:
                col.violation("C20:preds-include-functions",
                              "include_functions=True does not add exactly the function", wit)
    for f in G_.functions:
        try:
            pf = list(lg(f))
            if sorted(map(id, pf)) != sorted(id(r) for r in f.returns.values()):
                col.violation("C20:preds-function-definition",
                              "predecessors of a function definition are not its returns", wit)
        except Exception as e:  # noqa: BLE001
            col.violation(f"C20:preds-raises:FunctionDefinition:{type(e).__name__}",
                          str(e)[:100], wit)
    del pt
    return P


# documented user conventions -------------------------------------------------------
#  ListOfUsersCollector: "We do not consider the DistributedSendRefHolder a user of
#    DistributedSendRefHolder.send" (class docstring); keys are arrays only, so containers
#    (DictOfNamedArrays, LoopyCall, Call) never appear as keys; named results forward to
#    their container without recording an edge.
#  UsersCollector: the user of a send's data is the DistributedSend itself (code comment /
#    type of node_to_users); a NamedCallResult is recorded as user of the call's bindings.

def expected_users(G_: G, which: str) -> dict[int, list[Any]]:
    """id(u) -> list of users by the reflective walk under the documented convention of
    analysis *which* ('list' = ListOfUsersCollector, 'set' = UsersCollector)."""
    import pytato as pt
    from pytato.distributed.nodes import DistributedSendRefHolder
    from pytato.function import Call, NamedCallResult
    out: dict[int, list[Any]] = {}
    for v in G_.nodes:
        for k, c in G_.fc[id(v)]:
            if which == "list":
                if k == "send_payload":
                    continue          # documented
                if not isinstance(c, pt.Array):
                    continue          # keys are arrays
                if k == "dict_entry":
                    continue          # a dictionary of outputs is not a node using a value
                out.setdefault(id(c), []).append(v)
            else:
                if k == "send_payload":
                    assert isinstance(v, DistributedSendRefHolder)
                    out.setdefault(id(c), []).append(v.send)
                    continue
                if isinstance(v, Call) and k == "binding":
                    continue          # recorded on the named results instead
                if isinstance(c, Call):
                    continue          # calls are transparent: results use the bindings
                out.setdefault(id(c), []).append(v)
        if which == "set" and isinstance(v, NamedCallResult):
            for b in v._container.bindings.values():
                out.setdefault(id(b), []).append(v)
    return out


def check_users(G_: G, P: dict[int, Any], col: common.Collector, wit: dict[str, Any]) -> None:
    import pytato as pt
    from pytato import analysis as an
    from pytato import transform as tr
    from pytato.function import Call
    g = G_.g
    byid = {id(n): n for n in G_.all_nodes}
    # ---- ListOfUsersCollector
    try:
        U1 = an.get_list_of_users(g)
        NU = an.get_nusers(g)
    except Exception as e:  # noqa: BLE001
        U1 = None
        if refusal(e):
            col.histo("refusals", "get_list_of_users")
        else:
            col.violation(raise_key(G_, e, "users1"),
                          str(e)[:120], wit)
    if U1 is not None:
        col.count("mon.users1")
        exp = expected_users(G_, "list")
        for u in G_.arrays:
            got = list(U1.get(u, []))
            want = exp.get(id(u), [])
            may = [v for v in G_.nodes if any(u is d or u == d for d in G_.ds[id(v)])]
            for v in {id(x): x for x in want}.values():
                w = sum(1 for x in want if x is v)
                gcnt = sum(1 for x in got if x is v)
                m = sum(1 for x in may if x is v)
                kinds = sorted({k for k, c in G_.fc[id(v)] if c is u})
                if gcnt < w:
                    col.violation(f"C20:users1-omits:{_tname(v)}.{','.join(kinds)}",
                                  f"get_list_of_users lists a {_tname(v)} {gcnt}x as user of "
                                  f"its {kinds} child {_tname(u)}; the fields use it {w}x", wit)
                elif gcnt > w + m:
                    col.violation(f"C20:users1-multiplicity:{_tname(v)}.{','.join(kinds)}",
                                  f"{gcnt}x listed, {w}x used (+{m} via shape)", wit)
            for x in got:
                if id(x) not in byid:
                    # a node of a derived (computed) shape expression: tolerated if it really
                    # references u
                    if any(c is u or c == u for _k, c in field_children(x)):
                        col.histo("documented_conventions", "users1:derived-shape-subgraph")
                        continue
                if not any(x is v for v in want) and not any(x is v for v in may):
                    col.violation(f"C20:users1-invents:{_tname(x)}->{_tname(u)}",
                                  f"get_list_of_users lists a {_tname(x)} as user of a "
                                  f"{_tname(u)} that it does not reference", wit)
            if NU[u] != len(got):
                col.violation("C20:nusers-vs-list", f"get_nusers={NU[u]} list has {len(got)}",
                              wit)
            # converse of pytato's own predecessor relation, with multiplicity
            for v in {id(x): x for x in got}.values():
                pv = P.get(id(v))
                if pv is None:
                    continue
                if sum(1 for x in pv if x is u or x == u) != sum(1 for x in got if x is v):
                    col.violation(f"C20:converse(list):{_tname(v)}<-{_tname(u)}",
                                  f"a {_tname(v)} is listed {sum(1 for x in got if x is v)}x as "
                                  f"user of a {_tname(u)}, which is "
                                  f"{sum(1 for x in pv if x is u or x == u)}x among its direct "
                                  "predecessors", wit)
        for v in G_.nodes:
            pv = P.get(id(v))
            if pv is None:
                continue
            for u in {id(x): x for x in pv}.values():
                if not isinstance(u, pt.Array):
                    continue
                if not any(x is v for x in U1.get(u, [])):
                    kinds = sorted({k for k, c in G_.fc[id(v)] if c is u}) or ["shape*"]
                    if kinds == ["send_payload"] or kinds == ["dict_entry"]:
                        col.histo("documented_conventions", f"users1:{kinds[0]}")
                        continue
                    col.violation(f"C20:converse(list)-missing:{_tname(v)}.{','.join(kinds)}",
                                  f"a {_tname(u)} is a direct predecessor ({kinds}) of a "
                                  f"{_tname(v)} that get_list_of_users does not list as its "
                                  "user", wit)
    # ---- UsersCollector
    try:
        U2 = tr.get_users(g)
    except Exception as e:  # noqa: BLE001
        U2 = None
        if refusal(e):
            col.histo("refusals", "get_users")
        else:
            col.violation(raise_key(G_, e, "users2"),
                          str(e)[:120], wit)
    if U2 is not None:
        col.count("mon.users2")
        exp = expected_users(G_, "set")
        for u in G_.nodes:
            got = list(U2.get(u, set())) if u in U2 else None
            want = list({id(x): x for x in exp.get(id(u), [])}.values())
            may = [v for v in G_.nodes if any(u is d or u == d for d in G_.ds[id(v)])]
            if got is None:
                if isinstance(u, Call):
                    col.histo("documented_conventions", "users2:call-transparent")
                    continue
                col.violation(f"C20:users2-node-missing:{_tname(u)}",
                              f"get_users has no entry for a reachable {_tname(u)}", wit)
                continue
            for v in want:
                if not any(x is v for x in got):
                    kinds = sorted({k for k, c in G_.fc.get(id(v), []) if c is u}) or ["?"]
                    col.violation(f"C20:users2-omits:{_tname(v)}.{','.join(kinds)}",
                                  f"get_users does not report a {_tname(v)} as user of its "
                                  f"{kinds} child {_tname(u)}", wit)
            for x in got:
                if id(x) not in byid and isinstance(x, pt.Array):
                    if any(c is u or c == u for _k, c in field_children(x)):
                        col.histo("documented_conventions", "users2:derived-shape-subgraph")
                        continue
                if not any(x is v for v in want) and not any(x is v for v in may):
                    col.violation(f"C20:users2-invents:{_tname(x)}->{_tname(u)}",
                                  f"get_users reports a {_tname(x)} as user of a {_tname(u)} "
                                  "that it does not reference", wit)
        # agreement of the two implementations on array keys / array users
        if U1 is not None:
            for u in G_.arrays:
                a = {id(x) for x in U1.get(u, [])}
                b = {id(x) for x in U2.get(u, set()) if id(x) in byid}
                d = a ^ b
                for i in d:
                    v = byid.get(i)
                    if v is None:
                        continue
                    kinds = sorted({k for k, c in G_.fc[id(v)] if c is u}) or \
                        (["shape*"] if any(u is x or u == x for x in G_.ds[id(v)])
                         else ["indirect"])
                    key = f"{_tname(v)}.{','.join(kinds)}"
                    if kinds in (["dict_entry"], ["send_payload"]) or \
                            (kinds == ["binding"] and _tname(v) == "Call") or \
                            (kinds == ["indirect"] and _tname(v) == "NamedCallResult") or \
                            kinds == ["shape*"]:
                        col.histo("documented_conventions", f"users1-vs-users2:{key}")
                        continue
                    col.violation(f"C20:users-implementations-disagree:{key}",
                                  f"get_list_of_users and get_users disagree whether a "
                                  f"{_tname(v)} uses its {kinds} child {_tname(u)}", wit)
        # transitive users
        rng = common.rng_for(wit["desc"]["seed"], "recusers")
        anc: dict[int, set[int]] = {}

        def ancestors(n: Any) -> set[int]:
            # nodes from which n is reachable through UsersCollector's own relation
            seen: set[int] = set()
            work = [n]
            while work:
                x = work.pop()
                for y in U2.get(x, set()):
                    if id(y) not in seen:
                        seen.add(id(y))
                        work.append(y)
            return seen
        for n in rng.sample(G_.nodes, min(3, len(G_.nodes))):
            try:
                r = tr.rec_get_user_nodes(g, n)
            except Exception as e:  # noqa: BLE001
                col.violation(f"C20:rec-users-raises:{type(e).__name__}", str(e)[:100], wit)
                continue
            if {id(x) for x in r} != ancestors(n):
                col.violation(f"C20:rec-users-not-closure:{_tname(n)}",
                              "rec_get_user_nodes is not the transitive closure of get_users",
                              wit)
            # and it contains every ancestor under the reflective (convention) relation
            refl: set[int] = set()
            work = [n]
            while work:
                x = work.pop()
                for y in exp.get(id(x), []):
                    if id(y) not in refl:
                        refl.add(id(y))
                        work.append(y)
            miss = refl - {id(x) for x in r}
            if miss:
                v = byid.get(next(iter(miss)))
                col.violation(f"C20:rec-users-omits:{_tname(v)}",
                              f"a {_tname(v)} depends on the node but is not among its "
                              "recursive users", wit)
        del anc


def check_topo(G_: G, col: common.Collector, wit: dict[str, Any]) -> None:
    import pytato as pt
    from pytato.transform import TopoSortMapper
    try:
        m = TopoSortMapper()
        m(G_.g)
        order = list(m.topological_order)
    except Exception as e:  # noqa: BLE001
        if refusal(e):
            col.histo("refusals", "TopoSortMapper")
        else:
            col.violation(raise_key(G_, e, "topo"),
                          str(e)[:100], wit)
        return
    col.count("mon.topo")
    pos: dict[int, int] = {}
    for i, n in enumerate(order):
        if id(n) in pos:
            col.violation(f"C20:topo-duplicate:{_tname(n)}", "a node is listed twice", wit)
        pos[id(n)] = i
    for v in G_.nodes:
        if isinstance(v, pt.Array) and id(v) not in pos:
            col.violation(f"C20:topo-omits:{_tname(v)}",
                          f"a reachable {_tname(v)} is not in the topological order", wit)
    for v in G_.nodes:
        if id(v) not in pos:
            continue
        for k, c in G_.fc[id(v)]:
            if id(c) in pos and pos[id(c)] >= pos[id(v)]:
                col.violation(f"C20:topo-order:{_tname(v)}.{k}",
                              f"a {_tname(v)} is listed before its {k} child {_tname(c)}", wit)
            if id(c) not in pos and isinstance(c, pt.Array):
                col.violation(f"C20:topo-omits-child:{_tname(v)}.{k}",
                              f"the {k} child {_tname(c)} of a listed {_tname(v)} is not in "
                              "the order", wit)


def check_counts(G_: G, col: common.Collector, wit: dict[str, Any], dup: bool) -> None:
    import pytato as pt
    from pytato import analysis as an
    g = G_.g
    # expectation: the nodes of every namespace -- the top level and the body of each
    # distinct function definition, each traversed once -- plus one per function definition;
    # dictionaries of named arrays excluded (documented)
    from vf.oracle import reflect
    namespaces: list[list[Any]] = [[n for n in G_.nodes
                                    if not isinstance(n, pt.DictOfNamedArrays)]]
    for f in G_.all_functions:
        seen_f: set[int] = set()
        ns: list[Any] = []
        for r in f.returns.values():
            for n in reflect.walk(r, enter_functions=False, skip_kinds=reflect.MAPPER_INVISIBLE):
                if id(n) not in seen_f and not isinstance(n, pt.DictOfNamedArrays):
                    seen_f.add(id(n))
                    ns.append(n)
        namespaces.append(ns)
    namespaces.append(list(G_.all_functions))
    objs = [n for ns in namespaces for n in ns]
    # "distinct" is decided per namespace (equal nodes of two bodies are two nodes); two
    # EQUAL function definitions are one definition, hence one namespace
    distinct_ns: list[Any] = []
    rep: dict[Any, int] = {}
    for j, f in enumerate(G_.all_functions):
        rep.setdefault(f, j)
    for j, ns in enumerate(namespaces):
        if 1 <= j <= len(G_.all_functions) and rep[G_.all_functions[j - 1]] != j - 1:
            continue
        distinct_ns.extend({n: 1 for n in ns})
    distinct: dict[Any, int] = {}
    for n in objs:
        distinct[n] = distinct.get(n, 0) + 1
    col.count("mon.counts")
    try:
        nd = an.get_num_nodes(g, count_duplicates=True)
        nn = an.get_num_nodes(g, count_duplicates=False)
        tc_d = an.get_node_type_counts(g, count_duplicates=True)
        tc_n = an.get_node_type_counts(g, count_duplicates=False)
        mult = an.get_node_multiplicities(g)
        ncs = an.get_num_call_sites(g)
    except Exception as e:  # noqa: BLE001
        col.violation(raise_key(G_, e, "counts"),
                      str(e)[:100], wit)
        return
    tag = "dup" if dup else "nodup"
    if nd != len(objs):
        col.violation(f"C20:num-nodes(count_duplicates):{tag}",
                      f"get_num_nodes(count_duplicates=True)={nd}, distinct objects "
                      f"{len(objs)}", wit)
    if nn != len(distinct_ns):
        col.violation(f"C20:num-nodes(distinct):{tag}",
                      f"get_num_nodes(count_duplicates=False)={nn}, distinct nodes "
                      f"{len(distinct_ns)}", wit)
    et: dict[type, int] = {}
    for n in objs:
        et[type(n)] = et.get(type(n), 0) + 1
    if dict(tc_d) != et:
        bad = sorted(t.__name__ for t in set(et) | set(tc_d) if et.get(t, 0) != tc_d.get(t, 0))
        col.violation(f"C20:type-counts(count_duplicates):{tag}:{','.join(bad)[:60]}",
                      f"type counts differ for {bad}", wit)
    et2: dict[type, int] = {}
    for n in distinct_ns:
        et2[type(n)] = et2.get(type(n), 0) + 1
    if dict(tc_n) != et2:
        bad = sorted(t.__name__ for t in set(et2) | set(tc_n)
                     if et2.get(t, 0) != tc_n.get(t, 0))
        col.violation(f"C20:type-counts(distinct):{tag}:{','.join(bad)[:60]}",
                      f"type counts differ for {bad}", wit)
    if dict(mult) != distinct:
        bad = [n for n in set(distinct) | set(mult) if distinct.get(n, 0) != mult.get(n, 0)]
        col.violation(f"C20:multiplicities:{tag}:{_tname(bad[0])}",
                      f"multiplicity of a {_tname(bad[0])}: reported {mult.get(bad[0], 0)}, "
                      f"objects {distinct.get(bad[0], 0)}", wit)
    # call sites: every Call object, bodies included (documented in CallSiteCountMapper)
    from pytato.function import Call
    # (a Call object that hash-consing shares between two bodies is a call site of each)
    calls = [n for n in objs if isinstance(n, Call)]
    if ncs != len(calls):
        col.violation(f"C20:num-call-sites:{tag}", f"reported {ncs}, Call objects {len(calls)}",
                      wit)


def check_tags(G_: G, col: common.Collector, wit: dict[str, Any]) -> None:
    """Tag a random subset of the arrays (two tag types), rebuild, count."""
    import pytato as pt
    from pytato import analysis as an
    from vf.oracle import reflect
    from vf.vtags import VTag, VUniqueTag
    rng = common.rng_for(wit["desc"]["seed"], "tags")
    choice: dict[int, int] = {}
    for n in G_.all_nodes:
        if isinstance(n, pt.Array) and not isinstance(n, pt.NamedArray):
            choice[id(n)] = rng.choice([0, 0, 1, 2, 3])

    def fn(n: Any, vals: dict[str, Any]) -> Any:
        c = choice.get(id(n), 0)
        if c and "tags" in vals:
            t = set(vals["tags"])
            if c & 1:
                t.add(VTag(7))
            if c & 2:
                t.add(VUniqueTag(9))
            vals["tags"] = frozenset(t)
            return reflect._construct_like(n, vals)
        return None
    try:
        gt = reflect.hashcons(reflect.rebuild(G_.g, fn))
    except Exception as e:  # noqa: BLE001
        col.histo("harness_skips", f"tag-rebuild:{type(e).__name__}")
        return
    nodes = [n for n in reflect.walk(gt, enter_functions=False,
                                     skip_kinds=reflect.MAPPER_INVISIBLE)
             if isinstance(n, pt.Array)]
    for types in ((VTag,), (VUniqueTag,), (VTag, VUniqueTag), (pt.tags.ImplStored,)):
        want = sum(1 for n in nodes
                   if all(n.tags_of_type(t) for t in types))
        try:
            got = an.get_num_tags_of_type(gt, types[0] if len(types) == 1 else types)
        except Exception as e:  # noqa: BLE001
            if refusal(e):
                col.histo("refusals", "get_num_tags_of_type")
                return
            bad = str(e).split("type ")[-1][:60]
            col.violation(f"C20:tag-count-raises:{type(e).__name__}:{bad}",
                          f"get_num_tags_of_type raised: {str(e)[:120]}", wit)
            return
        col.count("mon.tags")
        if got != want:
            col.violation(f"C20:tag-count:{len(types)}-types",
                          f"get_num_tags_of_type={got}, nodes carrying "
                          f"{[t.__name__ for t in types]}: {want}", wit)


def check_materialized(G_: G, col: common.Collector, wit: dict[str, Any]) -> None:
    import pytato as pt
    from pytato import analysis as an
    from pytato.distributed.nodes import DistributedRecv, DistributedSendRefHolder
    from pytato.function import Call, NamedCallResult
    from pytato.loopy import LoopyCall, LoopyCallResult
    g = G_.g
    must: dict[int, Any] = {}
    may: dict[int, Any] = {}
    for n in G_.all_nodes:
        if isinstance(n, (pt.array.InputArgumentBase, DistributedRecv)):
            must[id(n)] = n
        elif isinstance(n, pt.Array) and n.tags_of_type(pt.tags.ImplStored):
            must[id(n)] = n
        if isinstance(n, (pt.CSRMatmul if hasattr(pt, "CSRMatmul") else (),
                          LoopyCallResult, NamedCallResult)):
            may[id(n)] = n
        if type(n).__name__ == "CSRMatmul":
            may[id(n)] = n
        if isinstance(n, Call):
            for b in n.bindings.values():
                must[id(b)] = b
        if isinstance(n, LoopyCall):
            for b in n.bindings.values():
                if isinstance(b, pt.Array):
                    must[id(b)] = b
        if isinstance(n, DistributedSendRefHolder):
            may[id(n.send.data)] = n.send.data
    for f in G_.all_functions:
        for r in f.returns.values():
            may[id(r)] = r
    outs = list(g._data.values()) if isinstance(g, pt.DictOfNamedArrays) else \
        ([g] if isinstance(g, pt.Array) else [])
    for inc in (True, False):
        try:
            got = an.collect_materialized_nodes(g, include_outputs=inc)
        except Exception as e:  # noqa: BLE001
            col.violation(raise_key(G_, e, "materialized"),
                          str(e)[:100], wit)
            return
        col.count("mon.materialized")
        gotset: dict[Any, Any] = {x: x for x in got}
        want = dict(must)
        if inc:
            for o in outs:
                want[id(o)] = o
        for n in want.values():
            if n not in gotset:
                why = "output" if any(n is o for o in outs) and id(n) not in must else \
                    ("stored" if n.tags_of_type(pt.tags.ImplStored) else "input/bound")
                col.violation(f"C20:materialized-omits:{why}:{_tname(n)}",
                              f"collect_materialized_nodes(include_outputs={inc}) lacks a "
                              f"{_tname(n)} ({why})", wit)
        allowed = {n for n in want.values()} | {n for n in may.values()}
        for x in got:
            if x not in allowed:
                isout = any(x is o or x == o for o in outs)
                col.violation(f"C20:materialized-invents:{_tname(x)}:"
                              f"{'output' if isout else 'inner'}:inc={inc}",
                              f"collect_materialized_nodes(include_outputs={inc}) contains a "
                              f"{_tname(x)} that is neither input, received, bound, stored "
                              "nor (requested) output", wit)


def add_stored(g: Any, seed: int) -> Any:
    """Tag ~1/5 of the inner arrays ImplStored (so that the stored clause is exercised)."""
    import pytato as pt
    from vf.oracle import reflect
    rng = common.rng_for(seed, "stored")
    pick = {id(n) for n in reflect.walk(g)
            if isinstance(n, pt.Array) and not isinstance(n, (pt.NamedArray,
                                                              pt.array.InputArgumentBase))
            and rng.random() < 0.2}

    def fn(n: Any, vals: dict[str, Any]) -> Any:
        if id(n) in pick and "tags" in vals:
            vals["tags"] = frozenset(vals["tags"]) | {pt.tags.ImplStored()}
            return reflect._construct_like(n, vals)
        return None
    try:
        return reflect.rebuild(g, fn)
    except Exception:  # noqa: BLE001
        return g


def with_twin(G_: G, seed: int) -> Any:
    import pytato as pt
    from vf.oracle import reflect
    rng = common.rng_for(seed, "dup20")
    victims = [n for n in G_.nodes if isinstance(n, pt.Array)
               and not isinstance(n, pt.NamedArray)]
    # a function definition called from two sites of the top level can have a twin as well
    # (what tracing one Python function twice produces)
    from pytato.function import Call
    ncalls: dict[int, int] = {}
    for n in G_.nodes:
        if isinstance(n, Call):
            ncalls[id(n.function)] = ncalls.get(id(n.function), 0) + 1
    fvictims = [f for f in G_.functions if ncalls.get(id(f), 0) >= 2]
    if fvictims and rng.random() < 0.5:
        victims = fvictims
    if not victims:
        return None
    v = rng.choice(victims)
    twin = reflect.clone_node(v)
    used = [False]

    visible = {id(n) for n in G_.nodes}

    def fn2(n: Any, vals: dict[str, Any]) -> Any:
        if not used[0] and id(n) in visible:
            for k, val in vals.items():
                if k == "indices":
                    continue
                if val is v:
                    vals[k] = twin
                    used[0] = True
                    return reflect._construct_like(n, vals)
                if isinstance(val, tuple) and any(x is v for x in val):
                    j = [x is v for x in val].index(True)
                    vals[k] = (*val[:j], twin, *val[j + 1:])
                    used[0] = True
                    return reflect._construct_like(n, vals)
        return None
    try:
        gd = reflect.rebuild(G_.g, fn2)
    except Exception:  # noqa: BLE001
        return None
    if not isinstance(v, pt.Array):
        fs = {id(n.function) for n in reflect.walk(gd, skip_kinds=reflect.MAPPER_INVISIBLE)
              if isinstance(n, Call)}
        return gd if used[0] and id(v) in fs and id(twin) in fs else None
    if not used[0] or not any(
            n is v for n in reflect.walk(gd, skip_kinds=reflect.MAPPER_INVISIBLE)):
        try:
            gd = pt.make_dict_of_named_arrays({"vf_orig": v, "vf_twin": twin})
        except Exception:  # noqa: BLE001
            return None
    return gd


def check_graph(desc: dict[str, Any], col: common.Collector) -> None:
    from vf.oracle import reflect
    g0 = graphs.build(desc)
    g = reflect.hashcons(add_stored(g0, desc["seed"]))
    G_ = G(g)
    wit = {"desc": desc}
    P = check_preds(G_, col, wit)
    check_users(G_, P, col, wit)
    check_topo(G_, col, wit)
    check_counts(G_, col, wit, dup=False)
    check_tags(G_, col, wit)
    check_materialized(G_, col, wit)
    kinds = {k for n in G_.nodes for k, _c in G_.fc[id(n)]}
    indeg: dict[int, int] = {}
    for n in G_.nodes:
        for _k, c in G_.fc[id(n)]:
            indeg[id(c)] = indeg.get(id(c), 0) + 1
    nontrivial = max(indeg.values(), default=0) >= 2 and bool(
        kinds & {"shape", "index", "csr_part", "send_payload", "binding"})
    col.case(common.stable_hash(desc), nontrivial,
             {"graph": desc, "nodes": len(G_.all_nodes), "edge_kinds": sorted(kinds)})
    for k in kinds:
        col.histo("edge_kinds", k)
    for n in G_.all_nodes:
        col.histo("node_kinds", _tname(n))
    # ---- with one structurally equal twin
    gd = with_twin(G_, desc["seed"])
    if gd is not None and reflect.duplicate_groups(gd) > 0:
        Gd = G(gd)
        witd = {"desc": desc, "variant": "twin"}
        col.count("mon.duplicate_graphs")
        check_counts(Gd, col, witd, dup=True)
        check_topo(Gd, col, witd)
        check_materialized(Gd, col, witd)


def turnover(col: common.Collector, rounds: int = 120) -> None:
    """One analysis object reused across graphs that come and go: its answers must not
    depend on what lived at an address before (results memoised under id())."""
    import gc

    import numpy as np
    import pytato as pt
    from pytato.analysis import DirectPredecessorsGetter
    getter = DirectPredecessorsGetter()
    x = pt.make_placeholder("x", (3,), np.float64)
    y = pt.make_placeholder("y", (3,), np.float64)
    z = pt.make_placeholder("z", (3,), np.float64)
    for i in range(rounds):
        col.count("mon.turnover")
        a = x + y * float(i + 1)
        getter(a)
        del a
        gc.collect()
        b = (y * z) if i % 2 else pt.stack([z, y])
        got = {id(n) for n in getter(b)}
        want = {id(n) for n in DirectPredecessorsGetter()(b)}
        if got != want:
            col.violation("C20:preds-depend-on-getter-history",
                          "a reused DirectPredecessorsGetter reports, for a new node, "
                          "predecessors that a fresh getter does not (stale answer for a dead "
                          "node at the same address)", {"round": i})
            break
        del b


def run_shard(shard: dict[str, Any], col: common.Collector) -> None:
    if shard.get("idx", 0) == 0 or "idx" not in shard:
        try:
            turnover(col)
        except Exception as e:  # noqa: BLE001
            col.histo("turnover_unavailable", type(e).__name__)
    for desc in shard["descs"]:
        try:
            with common.time_limit(120):
                check_graph(desc, col)
        except common.Timeout:
            col.count("graph_timeouts")
        except Exception as e:  # noqa: BLE001
            import traceback
            col.violation(f"C20:harness-exception:{type(e).__name__}@"
                          f"{common.exc_site(e, ('vf',))}",
                          f"unexpected {type(e).__name__}: {str(e)[:200]}",
                          {"desc": desc, "tb": traceback.format_exc()[-1500:]})


def replay(witness: dict[str, Any], col: common.Collector) -> None:
    check_graph(witness["desc"], col)
