"""C01 -- code generated for the loopy target computes what NumPy computes.

Events: outputs of the compiled kernel (loopy C target + gcc, harness-allocated
buffers), declared shape/dtype of every kernel argument, every exception from
the public API / generate_loopy / loopy / gcc / the call, canary corruption.
Oracle: NumPy shadow of the same ProgSpec (exact for bool/int, Monte-Carlo
arithmetic spread as scale-aware tolerance otherwise); order-independence
variants (outputs / operand creation order permuted) must satisfy the same oracle.
"""
from __future__ import annotations

import signal
import time
from typing import Any

import numpy as np

from vf import common
from vf.gen import proggen
from vf.gen import progspec as ps

LEVEL = "exploration"
RULE = ("random ProgSpecs from 7 profiles (mixed/index/reduce/einsum/zero/nan/elementwise), "
        "3-25 nodes, 1-3 outputs, heavy sharing, NumPy-driven generation inside the documented "
        "fragment (vf/gen/proggen.py FRAGMENT); 1-2 input sets each; distinct by spec hash; "
        "non-trivial = >=3 non-input nodes and at least one reduction/einsum/index/remap/where "
        "node")
ASSUMPTIONS = [
    "NumPy 2.x is the reference semantics",
    "gcc -O1 -ffp-contract=off -fno-fast-math is a faithful C99 implementation",
    "loopy's C code generator is trusted (a loopy limitation is reported as fragment "
    "exclusion only when loopy itself states it in a NotImplementedError)",
    "tolerance for inexact results = 8*(spread of 4 Monte-Carlo-arithmetic shadow runs) + "
    "16 ulp of the reference; inputs on which a discrete intermediate flips under "
    "perturbation are discarded and redrawn",
]
MIN_MONITOR = {"mon.value_oracle": 50, "mon.programs_executed": 30}
SHARD_TIMEOUT = {"quick": 900, "thorough": 7200}

N_PROGRAMS = {"quick": int(__import__("os").environ.get("C01_N", 1400)), "thorough": 40000}
PER_PROGRAM_TIMEOUT = 120


_Timeout = common.Timeout


def plan(tier: str, seed: int) -> list[dict[str, Any]]:
    n = N_PROGRAMS[tier]
    nshards = common.NCPU * (1 if tier == "quick" else 4)
    profiles = sorted(proggen.PROFILES)
    cases = []
    for i in range(n):
        cases.append({"seed": common.sub_seed(seed, "c01", i) & 0x7FFFFFFF,
                      "profile": profiles[i % len(profiles)]})
    return [{"cases": c} for c in common.split_even(cases, nshards)]


# ---------------------------------------------------------------------------
# known loopy-C-target limitations (stated by loopy itself); each is cited


def loopy_limitation(stage: str, exc: BaseException | None, detail: str,
                     bp: Any = None) -> str | None:
    import re
    msg = (str(exc) if exc is not None else "") + detail
    if "remainder and floordiv for floating-point types" in msg:
        return "loopy-C:float-floordiv-mod"
    if stage == "loopy-schedule" and isinstance(exc, NotImplementedError):
        # loopy's optional access-range checker (on because the kernel holds a hand-written
        # loopy call) cannot turn a nested conditional into an isl set: NotImplementedError
        # raised inside loopy/check.py -> isl_set_from_expr
        import traceback
        files = [fr.filename for fr in traceback.extract_tb(exc.__traceback__)]
        names = [fr.name for fr in traceback.extract_tb(exc.__traceback__)]
        if any(f.endswith("loopy/check.py") for f in files) and "isl_set_from_expr" in names:
            return "loopy:check_bounds-cannot-handle-conditional-in-condition"
    if "static inline static int isnani" in msg:
        # loopy's preamble for isnan on an integer operand is not valid C
        return "loopy-C:isnan-int-preamble-duplicate-static"
    if stage == "loopy-preprocess" and re.search(
            r"Rule '.*' invoked with \d+ arguments \(needs \d+\)", msg) and bp is not None:
        # make_reduction_inames_unique merges two substitution rules with the same body but
        # different arity; attributed to loopy only if the kernel AS PYTATO BUILT IT invokes
        # every rule with its own arity
        from vf.exec import ctarget
        pre = getattr(bp, "vf_pre_t_unit", None)
        if pre is not None and ctarget.subst_arity_consistent(pre) \
                and not ctarget.subst_arity_consistent(bp.program):
            return "loopy:substitution-rules-merged-across-arity"
    if bp is not None and stage in ("loopy-preprocess", "loopy-schedule", "loopy-codegen", "gcc"):
        # ... or two rules whose bodies are Python-equal but differ in a constant's dtype
        from vf.exec import ctarget
        pre = getattr(bp, "vf_pre_t_unit", None)
        try:
            if pre is not None and ctarget.subst_rules_merged_across_dtype(pre, bp.program):
                return "loopy:substitution-rules-merged-across-constant-dtype"
        except Exception:  # noqa: BLE001
            pass
    return None


def run_program(spec: dict[str, Any], col: common.Collector, *, variant: bool = False,
                vset0: int = 0, tag: str = "") -> dict[str, Any] | None:
    """Build, generate, compile and execute *spec*; compare with the shadow.
    Returns {"outputs": {vset: {name: ndarray}}, "cp": Compiled} or None."""
    import pytato as pt
    from vf.exec import ctarget, lpinterp
    from vf.oracle import compare

    wit = {"spec": spec, "variant": variant}
    # -- build through the public API
    try:
        b = ps.PtBuild(spec, vset=vset0)
        outs = b.outputs()
        if variant:
            items = list(outs.items())[::-1]
            outs = dict(items)
    except Exception as e:  # noqa: BLE001
        site = common.exc_site(e)
        col.violation(f"C01:construction:{type(e).__name__}@{site}",
                      f"public API raised {type(e).__name__} on an in-fragment program: "
                      f"{str(e)[:160]}", wit)
        return None
    col.count("mon.programs_built")
    try:
        dag = pt.transform.deduplicate(pt.make_dict_of_named_arrays(outs))
    except Exception as e:  # noqa: BLE001
        col.violation(f"C01:deduplicate:{type(e).__name__}@{common.exc_site(e)}",
                      f"deduplicate raised {type(e).__name__}: {str(e)[:160]}", wit)
        return None
    # -- code generation
    bp = None
    try:
        bp = ctarget.generate(dag)
        cp = ctarget.compile_program(bp)
    except ctarget.CodegenFailure as f:
        lim = loopy_limitation(f.stage, f.exc, f.detail, bp)
        if lim is not None:
            col.histo("outside_fragment", lim)
            return None
        if f.stage in ("gcc", "loopy-codegen"):
            try:
                sigs = trusted_base_signatures(bp.program)
            except Exception:  # noqa: BLE001
                sigs = set()
            if sigs:
                # gcc rejects the C text and the kernel contains a construct loopy's C
                # printer is known to emit without the parentheses C needs
                col.histo("trusted_base_disagreements",
                          f.stage + ":" + "+".join(sorted(sigs)))
                return None
        site = common.exc_site(f.exc) if f.exc is not None else gcc_error_class(f.detail)
        col.violation(f"C01:codegen:{f.stage}:{type(f.exc).__name__ if f.exc else 'gcc'}@{site}",
                      f"code generation failed at stage {f.stage} for an in-fragment program: "
                      f"{str(f.exc)[:200] if f.exc else f.detail[-300:]}", wit)
        return None
    col.count("mon.programs_generated")
    tb_sig = trusted_base_signatures(bp.program, bp)
    knl = cp.kernel
    col.count("mon.dependency_monitor")
    if getattr(cp, "dep_repairs", None):
        col.violation("C01:dependency-omitted:repaired-by-loopy-heuristic",
                      "the kernel pytato built lacks a dependency between a writer and a "
                      "reader of one variable; loopy's deprecated single-writer heuristic "
                      f"added it: {cp.dep_repairs[0][:200]}", {**wit})
    col.histo("kernel_insns", str(min(len(knl.instructions), 40) // 5 * 5))
    result: dict[str, Any] = {"outputs": {}, "cp": cp, "bp": bp}
    has_dw = any(i["kind"] == "dw" for i in spec["inputs"])
    vsets = [vset0] if (has_dw or variant) else [vset0, vset0 + 1]
    for vs in vsets:
        # -- reference (with fragility screening)
        use_vs = vs
        ref = spread = None
        for attempt in range(4):
            r_, s_, fragile, _plain = ps.reference(spec, use_vs)
            if not fragile:
                ref, spread = r_, s_
                break
            col.count("fragile_input_sets")
            if has_dw:
                break
            use_vs += 2
        if ref is None:
            col.count("skipped_fragile")
            continue
        env = b.env(use_vs)
        # -- third execution: interpret the kernel pytato produced (before loopy's passes)
        it = None
        try:
            it = lpinterp.interpret(bp, env)
            col.count("mon.kernel_interpreted")
        except (lpinterp.Unsupported, lpinterp.UnsupportedExpr) as e:
            col.histo("kernel_interp_unsupported", str(e)[:50])
        if it is not None:
            if it.rbw:
                col.violation("C01:read-before-write",
                              "an instruction reads a temporary/output element that no "
                              "instruction it depends on has written (dependency omission)",
                              {**wit, "vset": use_vs, "events": it.rbw[:3], "order": it.order})
            hard = [o for o in it.oob if not o.get("data_dependent")]
            if hard:
                col.violation("C01:kernel-oob-access",
                              "kernel subscript outside the array at an executed point",
                              {**wit, "vset": use_vs, "events": hard[:3]})
        try:
            rr = ctarget.run(cp, bp, env)
        except ctarget.KernelContractError as e:
            col.violation("C01:kernel-interface", f"generated kernel interface is inconsistent "
                          f"with the program: {e}", {**wit, "vset": use_vs})
            continue
        col.count("mon.programs_executed")
        if rr.canary_violations:
            col.violation("C01:out-of-bounds-write",
                          f"kernel wrote outside buffer(s) {rr.canary_violations}",
                          {**wit, "vset": use_vs})
        if rr.input_modified:
            col.violation("C01:input-modified", f"kernel modified input(s) {rr.input_modified}",
                          {**wit, "vset": use_vs})
        # output set
        if set(rr.outputs) != set(spec["outputs"]):
            col.violation("C01:output-names",
                          f"kernel outputs {sorted(rr.outputs)} != program outputs "
                          f"{sorted(spec['outputs'])}", {**wit, "vset": use_vs})
            continue
        for name, got in rr.outputs.items():
            node = outs[name]
            want = ref[name]
            col.count("mon.value_oracle")
            decl_shape = tuple(int(s) for s in node.shape)
            if got.shape != decl_shape or got.shape != want.shape:
                col.violation("C01:shape", f"output {name}: kernel {got.shape}, declared "
                              f"{decl_shape}, NumPy {want.shape}",
                              {**wit, "vset": use_vs, "output": name})
                continue
            if got.dtype != node.dtype:
                col.violation("C01:dtype", f"output {name}: kernel argument dtype {got.dtype} "
                              f"!= declared {node.dtype}", {**wit, "vset": use_vs, "output": name})
                continue
            with np.errstate(all="ignore"):
                want_c = want.astype(got.dtype)
            if want.dtype != got.dtype:
                col.histo("declared_dtype_differs_from_numpy", f"{want.dtype}->{got.dtype}")
            ok = compare.close_ulps(got, want_c, 16.0, err=8.0 * spread[name])
            iok = None
            if it is not None and name in it.outputs():
                iv = it.outputs()[name]
                iok = iv.shape == want_c.shape and compare.close_ulps(
                    iv.astype(got.dtype), want_c, 16.0, err=8.0 * spread[name])
                col.count("mon.interp_value_oracle")
            if iok is False:
                # the kernel pytato produced is wrong under loopy's documented semantics
                key = classify_value(spec, name, got, want_c)
                col.violation(key, f"output {name}: the generated kernel (interpreted before "
                              "loopy's passes) differs from NumPy beyond tolerance"
                              + ("" if not ok else " (the compiled binary happens to agree)"),
                              {**wit, "vset": use_vs, "output": name,
                               "diff": compare.describe_diff(it.outputs()[name], want_c)})
            elif not ok:
                if (iok or iok is None) and tb_sig:
                    # kernel is right, binary is wrong, and the kernel contains a construct
                    # the trusted base (loopy's C printer) is known to mistranslate
                    col.histo("trusted_base_disagreements" if iok else
                              "trusted_base_disagreements_unconfirmed_by_interpreter",
                              "+".join(sorted(tb_sig)))
                elif iok and floor_subscripts_repair(cp, bp, env, name, want_c,
                                                     8.0 * spread[name]):
                    # kernel is right (interpreter), binary is wrong, and giving the integer
                    # `/` and `%` in the C text's subscripts loopy's own (floor) semantics
                    # makes the binary right: loopy printed a floor division of a possibly
                    # negative affine form as a truncating C division
                    col.histo("trusted_base_disagreements",
                              "loopy-C:subscript-floor-division-printed-truncating")
                elif iok and isolated_output_agrees(spec, name, use_vs, bp, want_c,
                                                    8.0 * spread[name]):
                    # kernel is right (interpreter), binary is wrong, and the SAME store
                    # instruction compiled without its unrelated sibling instructions gives
                    # the right binary: loopy's result for one instruction depends on other
                    # instructions (its inference caches key expressions by ==, and
                    # np.float32(1.0) == np.float64(1.0))
                    col.histo("trusted_base_disagreements",
                              "loopy:result-depends-on-unrelated-instructions")
                else:
                    key = classify_value(spec, name, got, want_c)
                    col.violation(key, f"output {name} differs from NumPy beyond tolerance"
                                  + (" (kernel interpreter agrees with NumPy: defect is "
                                     "downstream of the pytato kernel or in the harness)"
                                     if iok else ""),
                                  {**wit, "vset": use_vs, "output": name,
                                   "diff": compare.describe_diff(got, want_c)})
        result["outputs"][use_vs] = rr.outputs
    return result


def _store_text(bp: Any, name: str) -> list[str]:
    out = []
    for insn in bp.program.default_entrypoint.instructions:
        for a in getattr(insn, "assignees", ()):
            agg = getattr(a, "aggregate", a)
            if getattr(agg, "name", None) == name:
                out.append(f"{a!r} <- {getattr(insn, 'expression', None)!r} "
                           f"within={sorted(insn.within_inames)}")
    return out


def isolated_output_agrees(spec: dict[str, Any], name: str, vset: int, bp: Any,
                           want: np.ndarray, err: Any) -> bool:
    """Positive evidence that a wrong binary is loopy's: the program restricted to output
    *name* has, for that output, store instruction(s) with text identical (typed repr) to
    the full kernel's, reads no temporaries, and ITS binary computes *want*."""
    import pytato as pt
    from vf.exec import ctarget
    from vf.oracle import compare
    try:
        if len(spec["outputs"]) < 2:
            return False
        sub = dict(spec)
        sub["outputs"] = {name: spec["outputs"][name]}
        b2 = ps.PtBuild(sub, vset=vset)
        dag2 = pt.transform.deduplicate(pt.make_dict_of_named_arrays(b2.outputs()))
        bp2 = ctarget.generate(dag2)
        t1, t2 = _store_text(bp, name), _store_text(bp2, name)
        if not t1 or t1 != t2 or bp2.program.default_entrypoint.temporary_variables:
            return False
        cp2 = ctarget.compile_program(bp2)
        rr = ctarget.run(cp2, bp2, b2.env(vset))
        got = rr.outputs.get(name)
        return bool(got is not None and got.shape == want.shape
                    and compare.close_ulps(got, want, 16.0, err=err))
    except Exception:  # noqa: BLE001
        return False


def floor_subscripts_repair(cp: Any, bp: Any, env: dict[str, Any], name: str,
                            want: np.ndarray, err: Any) -> bool:
    """Positive evidence for one loopy mistranslation: the same C text with floor semantics
    for the integer divisions in its subscripts (ctarget.floor_subscript_variant) computes
    *want* for output *name*."""
    from vf.exec import ctarget
    from vf.oracle import compare
    try:
        cp2 = getattr(cp, "vf_floor_variant", False)
        if cp2 is False:
            cp2 = ctarget.floor_subscript_variant(cp)
            cp.vf_floor_variant = cp2
        if cp2 is None:
            return False
        rr = ctarget.run(cp2, bp, env)
        got = rr.outputs.get(name)
        return bool(got is not None and got.shape == want.shape and not rr.canary_violations
                    and compare.close_ulps(got, want, 16.0, err=err))
    except Exception:  # noqa: BLE001
        return False


def gcc_error_class(detail: str) -> str:
    """First gcc error message, without positions, names and typedef aliases."""
    import re
    m = re.search(r"error: ([^\n]*)", detail)
    if not m:
        return "gcc"
    msg = m.group(1)
    msg = re.sub(r"\{aka[^}]*\}", "", msg)
    msg = re.sub(r"[‘’'`]", "", msg)
    msg = re.sub(r"\b(u?int\d+_t|long int|long unsigned int|int|long|unsigned)\b", "INT", msg)
    msg = re.sub(r"\b(complex double|complex float)\b", "COMPLEX", msg)
    msg = re.sub(r"\b(double|float)\b", "FLOAT", msg)
    msg = re.sub(r"\b[A-Za-z_]*\d+[A-Za-z_0-9]*\b", "N", msg)
    msg = re.sub(r"\s+", " ", msg).strip()
    msg = msg.replace(" )", ")").replace("( ", "(")
    return msg[:60]


def trusted_base_signatures(t_unit: Any, bp: Any = None) -> set[str]:
    """Constructs in the kernel that loopy's C printer is known to mistranslate.
    Only used to attribute a binary-vs-NumPy disagreement when the kernel-level
    interpreter agrees with NumPy."""
    import pymbolic.primitives as p
    sigs: set[str] = set()
    if bp is not None and getattr(bp, "vf_pre_t_unit", None) is not None:
        from vf.exec import ctarget
        try:
            if ctarget.subst_rules_merged_across_dtype(bp.vf_pre_t_unit, t_unit):
                sigs.add("loopy:substitution-rules-merged-across-constant-dtype")
        except Exception:  # noqa: BLE001
            pass

    def walk(e: Any, parent: Any = None) -> None:
        if isinstance(e, (p.BitwiseAnd, p.BitwiseOr, p.BitwiseXor)) and \
                isinstance(parent, (p.Comparison, p.BitwiseAnd, p.BitwiseOr, p.BitwiseXor,
                                    p.LogicalAnd, p.LogicalOr)) and type(parent) is not type(e):
            # C gives == != < <= lower/higher precedence than & ^ | differently from Python;
            # loopy prints no parentheses: `x & 3 <= 2`
            sigs.add("loopy-C:bitwise-operand-unparenthesised")
        if isinstance(e, (p.LogicalAnd, p.LogicalOr, p.LogicalNot)):
            # loopy generates the operands of && || ! in an integer type context: a float
            # constant below (e.g. a pad / where constant -0.5) is emitted as (double)(0),
            # or code generation stops with "don't know how to generate code for constant"
            def has_float_const(x: Any) -> bool:
                if isinstance(x, (float, np.floating, complex, np.complexfloating)):
                    return True
                if isinstance(x, p.ExpressionNode):
                    import dataclasses
                    for f_ in dataclasses.fields(x):  # type: ignore[arg-type]
                        v_ = getattr(x, f_.name)
                        if isinstance(v_, tuple):
                            if any(has_float_const(c_) for c_ in v_):
                                return True
                        elif has_float_const(v_):
                            return True
                return False
            if has_float_const(e):
                sigs.add("loopy-C:float-constant-under-logical-op")
        if isinstance(e, p.Comparison) and isinstance(parent, p.Comparison):
            # `a >= 1 <= b >= 1`: C relational operators chain left to right
            sigs.add("loopy-C:nested-comparison-unparenthesised")
        if isinstance(e, p.ExpressionNode):
            import dataclasses
            for f in dataclasses.fields(e):  # type: ignore[arg-type]
                v = getattr(e, f.name)
                if isinstance(v, tuple):
                    for c in v:
                        walk(c, e)
                else:
                    walk(v, e)
    knl = t_unit.default_entrypoint
    for insn in knl.instructions:
        ex = getattr(insn, "expression", None)
        if ex is not None:
            walk(ex)
    for r in knl.substitutions.values():
        walk(r.expression)
    return sigs


def classify_value(spec: dict[str, Any], name: str, got: np.ndarray, want: np.ndarray) -> str:
    """Coarse class of a value mismatch; the mechanism part of the key is the
    signature of the shrunk spec (see finalize_violations)."""
    from vf.oracle import compare
    if got.shape == want.shape and want.dtype.kind in "fc" and \
            compare.close_ulps(got, want, 2.0 ** 30 if want.dtype.itemsize >= 8 else 2.0 ** 10):
        return "C01:value:precision-only"
    return "C01:value"


def finalize_violations(spec: dict[str, Any], tmp: common.Collector,
                        col: common.Collector) -> None:
    """Shrink the spec for every violation and key it by the minimal spec's signature."""
    from vf.gen import shrink
    done: set[str] = set()
    for v in tmp.violations:
        coarse = v["key"]
        if coarse in done:
            continue
        done.add(coarse)
        w = v["witness"]
        vset = w.get("vset", 0) if isinstance(w, dict) else 0
        variant = bool(w.get("variant")) if isinstance(w, dict) else False

        def fails(s: dict[str, Any]) -> bool:
            c2 = common.Collector()
            try:
                run_program(s, c2, variant=variant, vset0=vset if variant else 0)
            except Exception:  # noqa: BLE001
                return False
            return any(x["key"] == coarse for x in c2.violations)
        try:
            small = shrink.shrink(spec, fails, vset=vset)
        except Exception:  # noqa: BLE001
            small = spec
        sig = ps.signature(small)
        w2 = dict(w) if isinstance(w, dict) else {"witness": w}
        w2["spec"] = small
        w2["original_spec_hash"] = common.stable_hash(spec)
        col.violation(f"{coarse}:{sig}", v["what"], w2)
        n = tmp.viol_counts.get(coarse, 1)
        if n > 1:
            col.viol_counts[f"{coarse}:{sig}"] = col.viol_counts.get(f"{coarse}:{sig}", 0) + n - 1


def check_case(case: dict[str, Any], col: common.Collector) -> None:
    spec = case.get("spec")
    if spec is None:
        spec = proggen.generate(case["seed"], case["profile"])
    for k in ps.node_kinds(spec):
        col.histo("op", k)
    col.histo("profile", spec.get("profile", "?"))
    h = common.stable_hash(spec)
    tmp = common.Collector()
    try:
        with common.time_limit(PER_PROGRAM_TIMEOUT):
            base = run_program(spec, tmp)
            rng = common.rng_for(spec["vseed"], "variant")
            if base is not None and rng.random() < 0.3:
                tmp.count("mon.order_variants")
                run_program(spec, tmp, variant=True, vset0=0)
        for k, v in tmp.counters.items():
            col.count(k, v)
        for t, d in tmp.hist.items():
            for k, v in d.items():
                col.histo(t, k, v)
        if tmp.violations:
            # (generous watchdog: minimisation decides the key, it must not be cut short
            # by a loaded machine)
            with common.time_limit(40 * PER_PROGRAM_TIMEOUT):
                finalize_violations(spec, tmp, col)
    except common.Timeout:
        col.count("program_timeouts")
        col.histo("timeouts", spec.get("profile", "?"))
        # violations found before the watchdog fired are still reported, keyed by the
        # signature of the whole (unminimised) program
        have = {v["key"] for v in col.violations}
        for v in tmp.violations:
            if not any(h_.startswith(v["key"]) for h_ in have):
                col.violation(f"{v['key']}:{ps.signature(spec)}",
                              v["what"] + " (not minimised: watchdog)", v["witness"])
    col.case(h, ps.is_nontrivial(spec),
             {"profile": spec.get("profile"), "ops": ps.node_kinds(spec),
              "inputs": [(i["kind"], i["shape"], i["dtype"]) for i in spec["inputs"]],
              "outputs": spec["outputs"]})


def run_shard(shard: dict[str, Any], col: common.Collector) -> None:
    import json
    cur = getattr(col, "_current_path", None)
    for case in shard["cases"]:
        if cur:
            with open(cur, "w") as f:
                json.dump(case, f)
        t0 = time.time()
        try:
            check_case(case, col)
        except Exception as e:  # noqa: BLE001
            import traceback
            col.violation(f"C01:harness-exception:{type(e).__name__}@{common.exc_site(e, ('vf',))}",
                          f"unexpected {type(e).__name__}: {str(e)[:200]}",
                          {"case": case, "tb": traceback.format_exc()[-2000:]})
        col.histo("program_seconds", str(min(int(time.time() - t0), 20)))


def on_crash(c: dict[str, Any]) -> dict[str, Any] | None:
    cur = c.get("current")
    if cur is None:
        return None
    return {"key": f"C01:kernel-crash:rc={c['rc']}",
            "what": "worker died while generating/executing this program (signal inside "
                    "generated code or native library)",
            "witness": {"case": cur, "log": c["log"][-800:]}}


def replay(witness: dict[str, Any], col: common.Collector) -> None:
    if "spec" in witness:
        check_case({"spec": witness["spec"]}, col)
    else:
        check_case(witness["case"], col)
