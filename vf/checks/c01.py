"""C01 -- code generated for the loopy target computes what NumPy computes.

Events: outputs of the compiled kernel (loopy C target + gcc, harness-allocated
buffers), declared shape/dtype of every kernel argument, every exception from
the public API / generate_loopy / loopy / gcc / the call, canary corruption.
Oracle: NumPy shadow of the same ProgSpec (exact for bool/int, Monte-Carlo
arithmetic spread as scale-aware tolerance otherwise); order-independence
variants (outputs / operand creation order permuted) must satisfy the same oracle.
"""
from __future__ import annotations

import signal
import time
from typing import Any

import numpy as np

from vf import common
from vf.gen import proggen
from vf.gen import progspec as ps

LEVEL = "exploration"
RULE = ("random ProgSpecs from 7 profiles (mixed/index/reduce/einsum/zero/nan/elementwise), "
        "3-25 nodes, 1-3 outputs, heavy sharing, NumPy-driven generation inside the documented "
        "fragment (vf/gen/proggen.py FRAGMENT); 1-2 input sets each; distinct by spec hash; "
        "non-trivial = >=3 non-input nodes and at least one reduction/einsum/index/remap/where "
        "node")
ASSUMPTIONS = [
    "NumPy 2.x is the reference semantics",
    "gcc -O1 -ffp-contract=off -fno-fast-math is a faithful C99 implementation",
    "loopy's C code generator is trusted (a loopy limitation is reported as fragment "
    "exclusion only when loopy itself states it in a NotImplementedError)",
    "tolerance for inexact results = 8*(spread of 4 Monte-Carlo-arithmetic shadow runs) + "
    "16 ulp of the reference; inputs on which a discrete intermediate flips under "
    "perturbation are discarded and redrawn",
]
MIN_MONITOR = {"mon.value_oracle": 50, "mon.programs_executed": 30}
SHARD_TIMEOUT = {"quick": 900, "thorough": 7200}

N_PROGRAMS = {"quick": int(__import__("os").environ.get("C01_N", 1400)), "thorough": 40000}
PER_PROGRAM_TIMEOUT = 60


class _Timeout(Exception):
    pass


def _alarm(signum: int, frame: Any) -> None:
    raise _Timeout()


def plan(tier: str, seed: int) -> list[dict[str, Any]]:
    n = N_PROGRAMS[tier]
    nshards = common.NCPU * (1 if tier == "quick" else 4)
    profiles = sorted(proggen.PROFILES)
    cases = []
    for i in range(n):
        cases.append({"seed": common.sub_seed(seed, "c01", i) & 0x7FFFFFFF,
                      "profile": profiles[i % len(profiles)]})
    return [{"cases": c} for c in common.split_even(cases, nshards)]


# ---------------------------------------------------------------------------
# known loopy-C-target limitations (stated by loopy itself); each is cited


def loopy_limitation(stage: str, exc: BaseException | None, detail: str) -> str | None:
    msg = (str(exc) if exc is not None else "") + detail
    if "remainder and floordiv for floating-point types" in msg:
        return "loopy-C:float-floordiv-mod"
    return None


def run_program(spec: dict[str, Any], col: common.Collector, *, variant: bool = False,
                vset0: int = 0, tag: str = "") -> dict[str, Any] | None:
    """Build, generate, compile and execute *spec*; compare with the shadow.
    Returns {"outputs": {vset: {name: ndarray}}, "cp": Compiled} or None."""
    import pytato as pt
    from vf.exec import ctarget
    from vf.oracle import compare

    wit = {"spec": spec, "variant": variant}
    # -- build through the public API
    try:
        b = ps.PtBuild(spec, vset=vset0)
        outs = b.outputs()
        if variant:
            items = list(outs.items())[::-1]
            outs = dict(items)
    except Exception as e:  # noqa: BLE001
        site = common.exc_site(e)
        col.violation(f"C01:construction:{type(e).__name__}@{site}",
                      f"public API raised {type(e).__name__} on an in-fragment program: "
                      f"{str(e)[:160]}", wit)
        return None
    col.count("mon.programs_built")
    try:
        dag = pt.transform.deduplicate(pt.make_dict_of_named_arrays(outs))
    except Exception as e:  # noqa: BLE001
        col.violation(f"C01:deduplicate:{type(e).__name__}@{common.exc_site(e)}",
                      f"deduplicate raised {type(e).__name__}: {str(e)[:160]}", wit)
        return None
    # -- code generation
    try:
        bp = ctarget.generate(dag)
        cp = ctarget.compile_program(bp)
    except ctarget.CodegenFailure as f:
        lim = loopy_limitation(f.stage, f.exc, f.detail)
        if lim is not None:
            col.histo("outside_fragment", lim)
            return None
        site = common.exc_site(f.exc) if f.exc is not None else "gcc"
        col.violation(f"C01:codegen:{f.stage}:{type(f.exc).__name__ if f.exc else 'gcc'}@{site}",
                      f"code generation failed at stage {f.stage} for an in-fragment program: "
                      f"{str(f.exc)[:200] if f.exc else f.detail[-300:]}", wit)
        return None
    col.count("mon.programs_generated")
    knl = cp.kernel
    col.histo("kernel_insns", str(min(len(knl.instructions), 40) // 5 * 5))
    result: dict[str, Any] = {"outputs": {}, "cp": cp, "bp": bp}
    has_dw = any(i["kind"] == "dw" for i in spec["inputs"])
    vsets = [vset0] if (has_dw or variant) else [vset0, vset0 + 1]
    for vs in vsets:
        # -- reference (with fragility screening)
        use_vs = vs
        ref = spread = None
        for attempt in range(4):
            r_, s_, fragile, _plain = ps.reference(spec, use_vs)
            if not fragile:
                ref, spread = r_, s_
                break
            col.count("fragile_input_sets")
            if has_dw:
                break
            use_vs += 2
        if ref is None:
            col.count("skipped_fragile")
            continue
        env = b.env(use_vs)
        try:
            rr = ctarget.run(cp, bp, env)
        except ctarget.KernelContractError as e:
            col.violation("C01:kernel-interface", f"generated kernel interface is inconsistent "
                          f"with the program: {e}", {**wit, "vset": use_vs})
            continue
        col.count("mon.programs_executed")
        if rr.canary_violations:
            col.violation("C01:out-of-bounds-write",
                          f"kernel wrote outside buffer(s) {rr.canary_violations}",
                          {**wit, "vset": use_vs})
        if rr.input_modified:
            col.violation("C01:input-modified", f"kernel modified input(s) {rr.input_modified}",
                          {**wit, "vset": use_vs})
        # output set
        if set(rr.outputs) != set(spec["outputs"]):
            col.violation("C01:output-names",
                          f"kernel outputs {sorted(rr.outputs)} != program outputs "
                          f"{sorted(spec['outputs'])}", {**wit, "vset": use_vs})
            continue
        for name, got in rr.outputs.items():
            node = outs[name]
            want = ref[name]
            col.count("mon.value_oracle")
            decl_shape = tuple(int(s) for s in node.shape)
            if got.shape != decl_shape or got.shape != want.shape:
                col.violation("C01:shape", f"output {name}: kernel {got.shape}, declared "
                              f"{decl_shape}, NumPy {want.shape}",
                              {**wit, "vset": use_vs, "output": name})
                continue
            if got.dtype != node.dtype:
                col.violation("C01:dtype", f"output {name}: kernel argument dtype {got.dtype} "
                              f"!= declared {node.dtype}", {**wit, "vset": use_vs, "output": name})
                continue
            with np.errstate(all="ignore"):
                want_c = want.astype(got.dtype)
            if want.dtype != got.dtype:
                col.histo("declared_dtype_differs_from_numpy", f"{want.dtype}->{got.dtype}")
            ok = compare.close_ulps(got, want_c, 16.0, err=8.0 * spread[name])
            if not ok:
                key = classify_value(spec, name, got, want_c)
                col.violation(key, f"output {name} differs from NumPy beyond tolerance",
                              {**wit, "vset": use_vs, "output": name,
                               "diff": compare.describe_diff(got, want_c)})
        result["outputs"][use_vs] = rr.outputs
    return result


def classify_value(spec: dict[str, Any], name: str, got: np.ndarray, want: np.ndarray) -> str:
    """Mechanism key for a value mismatch: the ops on the path to the output (coarse)."""
    # which node produced the output and the set of op kinds feeding it
    byid = {n["id"]: n for n in spec["nodes"]}
    root = spec["outputs"][name]
    seen: set[int] = set()
    ops: set[str] = set()
    stack = [root]
    while stack:
        i = stack.pop()
        if i in seen or i not in byid:
            continue
        seen.add(i)
        ops.add(byid[i]["op"])
        stack.extend(a for a in byid[i]["args"] if ps.is_ref(a))
    rootop = byid[root]["op"] if root in byid else "input"
    return f"C01:value:{rootop}:{'+'.join(sorted(ops))[:80]}"


def check_case(case: dict[str, Any], col: common.Collector) -> None:
    spec = case.get("spec")
    if spec is None:
        spec = proggen.generate(case["seed"], case["profile"])
    for k in ps.node_kinds(spec):
        col.histo("op", k)
    col.histo("profile", spec.get("profile", "?"))
    h = common.stable_hash(spec)
    old = signal.signal(signal.SIGALRM, _alarm)
    signal.alarm(PER_PROGRAM_TIMEOUT)
    try:
        base = run_program(spec, col)
        rng = common.rng_for(spec["vseed"], "variant")
        if base is not None and rng.random() < 0.3:
            col.count("mon.order_variants")
            run_program(spec, col, variant=True, vset0=0)
    except _Timeout:
        col.count("program_timeouts")
        col.histo("timeouts", spec.get("profile", "?"))
    finally:
        signal.alarm(0)
        signal.signal(signal.SIGALRM, old)
    col.case(h, ps.is_nontrivial(spec),
             {"profile": spec.get("profile"), "ops": ps.node_kinds(spec),
              "inputs": [(i["kind"], i["shape"], i["dtype"]) for i in spec["inputs"]],
              "outputs": spec["outputs"]})


def run_shard(shard: dict[str, Any], col: common.Collector) -> None:
    import json
    cur = getattr(col, "_current_path", None)
    for case in shard["cases"]:
        if cur:
            with open(cur, "w") as f:
                json.dump(case, f)
        t0 = time.time()
        try:
            check_case(case, col)
        except Exception as e:  # noqa: BLE001
            import traceback
            col.violation(f"C01:harness-exception:{type(e).__name__}@{common.exc_site(e, ('vf',))}",
                          f"unexpected {type(e).__name__}: {str(e)[:200]}",
                          {"case": case, "tb": traceback.format_exc()[-2000:]})
        col.histo("program_seconds", str(min(int(time.time() - t0), 20)))


def on_crash(c: dict[str, Any]) -> dict[str, Any] | None:
    cur = c.get("current")
    if cur is None:
        return None
    return {"key": f"C01:kernel-crash:rc={c['rc']}",
            "what": "worker died while generating/executing this program (signal inside "
                    "generated code or native library)",
            "witness": {"case": cur, "log": c["log"][-800:]}}


def replay(witness: dict[str, Any], col: common.Collector) -> None:
    if "spec" in witness:
        check_case({"spec": witness["spec"]}, col)
    else:
        check_case(witness["case"], col)
