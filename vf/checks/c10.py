"""C10 -- mismatched or cyclic communication is diagnosed, never partitioned.

Fault enumeration: for every valid multi-rank program, EVERY single fault of the quantifier
(drop / duplicate / retag / redirect one send or one receive, redirect to self, a dependency
closing a cross-rank cycle) at EVERY communication operation, plus random pairs of faults.
The harness decides from its own global description whether the faulted program is
well-formed.  Ill-formed: some rank must raise a *diagnostic* from
find_distributed_partition / verify_distributed_partition (ranks left in a collective after
another rank raised count as aborted); if nobody raises, the returned partition is executed
under adversarial schedules and a deadlock, crash or wrong value is the violation (a partition
that still computes the fault-free answer cannot exist for an ill-formed program, so any
silent success is reported too).  Well-formed (incl. fault pairs that cancel): no rank may
raise and execution must be faithful.
"""
from __future__ import annotations

from typing import Any

import numpy as np

from vf import common
from vf.gen import distgen

LEVEL = "fault_enumeration"
RULE = ("ill-formed program => a diagnostic on some rank from find/verify, never a partition "
        "that deadlocks or delivers a wrong message; well-formed program => no rank raises")
ASSUMPTIONS = ["MPI_Abort semantics: ranks blocked in a collective after another rank raised "
               "are aborted", "simulated MPI as in C08"]
MIN_MONITOR = {"mon.optimized_world": 300, "mon.faulted_programs": 1500, "mon.ill_formed": 1000, "mon.diagnosed": 800,
               "mon.well_formed_faulted": 20, "mon.fault_kinds": 11}
SHARD_TIMEOUT = {"quick": 900, "thorough": 7200}
N_PROGRAMS = {"quick": 320, "thorough": 2600}
N_PAIRS = {"quick": 6, "thorough": 12}
EXHAUSTIVE = {"quick": True, "thorough": True}
DIAGNOSTICS = ("DistributedPartitionVerificationError", "DuplicateSendError", "DuplicateRecvError",
               "MissingSendError", "MissingRecvError", "CycleError",
               "PartitionInducedCycleError")


def plan(tier: str, seed: int) -> list[dict[str, Any]]:
    rng = common.rng_for(seed, "c10")
    cases = [{"seed": rng.getrandbits(31), "tier": tier} for _ in range(N_PROGRAMS[tier])]
    n = common.NCPU * (1 if tier == "quick" else 4)
    return [{"cases": c} for c in common.split_even(cases, n)]


def is_diagnostic(e: BaseException) -> bool:
    names = {c.__name__ for c in type(e).__mro__}
    if names & set(DIAGNOSTICS):
        return True
    if isinstance(e, NotImplementedError) and ("Self-sends" in str(e) or "Self-receives" in str(e)):
        return True
    return False


def judge(desc: dict[str, Any], fault: str, wf: bool, why: str, col: common.Collector,
          wit: dict[str, Any]) -> None:
    from vf import simmpi
    from vf.exec import distrun
    R = desc["nranks"]
    pr = distrun.partition_all(desc, simmpi.RandomChooser(desc["seed"], "uniform"))
    raised = pr.errors
    col.count("mon.faulted_programs")
    col.histo("fault", fault)
    col.histo("expected", why)
    if not wf:
        col.count("mon.ill_formed")
        if raised:
            bad = {r: e for r, e in raised.items() if not is_diagnostic(e)}
            if all(not is_diagnostic(e) for e in raised.values()):
                r, e = next(iter(bad.items()))
                col.violation(f"C10:not-a-diagnostic:{why}:{type(e).__name__}@"
                              f"{common.exc_site(e)}",
                              f"{fault}: the ill-formed program ({why}) makes rank {r} fail with "
                              f"{type(e).__name__} at stage {pr.stage.get(r)}, not with a "
                              f"diagnostic: {str(e)[:140]}", wit)
            else:
                aff = distgen.affected_ranks(desc)
                if not any(is_diagnostic(e) for r, e in raised.items() if r in aff):
                    col.violation(f"C10:no-diagnostic-on-affected-ranks:{why}",
                                  f"{fault}: ill-formed ({why}); diagnostics only on ranks "
                                  f"{sorted(r for r, e in raised.items() if is_diagnostic(e))}, "
                                  f"the defective operations belong to ranks {sorted(aff)}", wit)
                col.count("mon.diagnosed")
                col.histo("diagnostic", f"{why}:" + "+".join(sorted(
                    {type(e).__name__ for e in raised.values() if is_diagnostic(e)})))
                col.histo("diagnosed_at", "+".join(sorted({pr.stage.get(r, "?")
                                                            for r in raised})))
            return
        # nobody raised: the partition exists -- execute it under adversarial schedules
        if len(pr.partitions) != R:
            col.violation(f"C10:ranks-vanished:{why}", f"{fault}: no exception, but only "
                          f"{sorted(pr.partitions)} of {R} ranks returned", wit)
            return
        outcome = "silent-success"
        for j, style in enumerate(("uniform", "last", "one")):
            er = distrun.execute_all(desc, pr.partitions,
                                     simmpi.RandomChooser(desc["seed"] + j, style))
            if er.deadlock:
                outcome = "deadlock"
                break
            if er.step_limit:
                outcome = "livelock"
                break
            if er.errors:
                e = next(iter(er.errors.values()))
                outcome = f"crash:{type(e).__name__}"
                break
            if er.world.mismatches or any(
                    er.world.taken.get(k, 0) != len(v) for k, v in er.world.mail.items()):
                outcome = "message-lost-or-mismatched"
                break
        col.violation(f"C10:undiagnosed:{why}:{outcome}",
                      f"{fault}: the program is ill-formed ({why}) but find/verify raised on no "
                      f"rank; executing the returned partition: {outcome}", wit)
        return
    # ---- well-formed
    col.count("mon.well_formed_faulted" if fault != "none" else "mon.valid_programs")
    if not raised and len(pr.partitions) != R:
        col.violation(f"C10:valid-program-hangs-in-collective:{fault.split('+')[0]}",
                      f"{fault}: well-formed program, no rank raised, but only ranks "
                      f"{sorted(pr.partitions)} of {R} returned; stages {pr.stage}", wit)
        return
    if raised:
        r, e = next(iter(raised.items()))
        col.violation(f"C10:valid-program-rejected:{fault.split('+')[0]}:{type(e).__name__}@"
                      f"{common.exc_site(e)}",
                      f"{fault}: well-formed program rejected on rank {r} at stage "
                      f"{pr.stage.get(r)}: {type(e).__name__}: {str(e)[:140]}", wit)
        return
    try:
        ref = distgen.reference(desc)
    except Exception:  # noqa: BLE001
        return
    er = distrun.execute_all(desc, pr.partitions, simmpi.RandomChooser(desc["seed"], "last"))
    ok = not er.deadlock and not er.errors and all(
        np.array_equal(er.outputs.get(r, {}).get(k), v)
        for r, o in ref.items() for k, v in o.items())
    if not ok:
        col.violation(f"C10:valid-program-misexecuted:{fault.split('+')[0]}",
                      f"{fault}: deadlock={er.deadlock} errors="
                      f"{[type(e).__name__ for e in er.errors.values()]}", wit)


def check_case(case: dict[str, Any], col: common.Collector) -> None:
    if case.get("desc") is not None:
        d = case["desc"]
        wf, why = distgen.well_formed(d)
        judge(d, case.get("fault", "replay"), wf, why, col, {"desc": d,
                                                             "fault": case.get("fault")})
        col.case()
        return
    base = distgen.generate(case["seed"])
    wf, why = distgen.well_formed(base)
    if not wf:
        col.violation("C10:harness:generator-produced-ill-formed", why, {"desc": base})
        return
    judge(base, "none", True, "ok", col, {"desc": base, "fault": "none"})
    fl = distgen.faults(base)
    rng = common.rng_for(base["seed"], "pairs")
    kinds = set()
    for name, d in fl:
        wf2, why2 = distgen.well_formed(d)
        kinds.add(name)
        judge(d, name, wf2, why2, col, {"desc": d, "fault": name})
        if case.get("optimized") is not None and len(case["optimized"]) < case.get("opt_cap", 0) \
                and rng.random() < 0.35:
            case["optimized"].append((name, d, wf2, why2))
        col.case(common.stable_hash(d), wf2 != wf or True,
                 {"fault": name, "expected": why2, "ranks": d["nranks"]})
    # pairs (incl. cancelling pairs: the same retag / redirect applied to both ends)
    comm = sorted({it["comm"] for it in base["items"] if it["kind"] == "send"})
    for _ in range(min(N_PAIRS[case.get("tier", "quick")], len(comm) * 2)):
        k = rng.choice(comm)
        d = cancelling_pair(base, k, rng)
        if d is None:
            continue
        name, d2 = d
        wf2, why2 = distgen.well_formed(d2)
        judge(d2, name, wf2, why2, col, {"desc": d2, "fault": name})
        col.case(common.stable_hash(d2), True, {"fault": name, "expected": why2})
    if len(fl) >= 2:
        for _ in range(N_PAIRS[case.get("tier", "quick")]):
            (n1, d1) = rng.choice(fl)
            f2 = distgen.faults(d1)
            if not f2:
                continue
            (n2, d2) = rng.choice(f2)
            wf2, why2 = distgen.well_formed(d2)
            judge(d2, f"{n1}+{n2}", wf2, why2, col, {"desc": d2, "fault": f"{n1}+{n2}"})
            col.case(common.stable_hash(d2), True, {"fault": f"{n1}+{n2}", "expected": why2})
    for k2 in kinds:
        col.histo("fault_kinds_seen", k2)


def cancelling_pair(base: dict[str, Any], k: int, rng: Any) -> tuple[str, dict[str, Any]] | None:
    """Retag both ends of message *k* identically, or move the whole message to another pair
    of ranks' tag space: the result is well-formed again."""
    import copy
    d = copy.deepcopy(base)
    s = next(it for it in d["items"] if it["kind"] == "send" and it["comm"] == k)
    r = next((it for it in d["items"] if it["kind"] == "recv" and it["comm"] == k), None)
    if r is None:
        return None
    t = distgen.fresh_tag(base)
    s["tag"] = t
    r["tag"] = t
    return "retag-both", d


# ------------------------------------------------------------------ python -O world

def optimized_world(cases: list[tuple[str, dict[str, Any], bool, str]], col: common.Collector
                    ) -> None:
    """The same judgement in an interpreter started with -O: asserts and the
    ``if __debug__`` checks of find_distributed_partition are gone, so diagnosis rests on
    the remaining checks and on verify_distributed_partition."""
    import json
    import os
    import subprocess
    import sys
    import tempfile
    root = os.path.dirname(os.path.dirname(os.path.dirname(os.path.abspath(__file__))))
    with tempfile.TemporaryDirectory(prefix="vf-c10-") as td:
        inp, outp = os.path.join(td, "in.json"), os.path.join(td, "out.json")
        with open(inp, "w") as fh:
            json.dump([c[1] for c in cases], fh)
        env = dict(os.environ, PYTHONPATH=os.pathsep.join([root,
                                                           os.environ.get("PYTHONPATH", "")]))
        r = subprocess.run([sys.executable, "-O", "-m", "vf.checks.c10", "--child", inp, outp],
                           env=env, capture_output=True, text=True, timeout=1500)
        if not os.path.exists(outp):
            col.inconc(f"python -O child failed: {r.stderr[-200:]}")
            return
        with open(outp) as fh:
            res = json.load(fh)
    for (fault, desc, wf, why), rr in zip(cases, res):
        col.count("mon.optimized_world")
        wit = {"desc": desc, "fault": fault, "world": "python -O"}
        raised = rr["raised"]
        if not wf:
            if raised:
                if not any(x["diagnostic"] for x in raised.values()):
                    x = next(iter(raised.values()))
                    col.violation(f"C10:-O:not-a-diagnostic:{why}:{x['type']}@{x['site']}",
                                  f"{fault} under python -O: {x['type']} at stage {x['stage']}: "
                                  f"{x['msg']}", wit)
                else:
                    col.histo("diagnosed_at(-O)", "+".join(sorted({x["stage"]
                                                                    for x in raised.values()})))
            else:
                col.violation(f"C10:-O:undiagnosed:{why}:{rr['outcome']}",
                              f"{fault} under python -O: ill-formed ({why}) but no rank raised; "
                              f"executing the partition: {rr['outcome']}", wit)
        elif raised:
            x = next(iter(raised.values()))
            col.violation(f"C10:-O:valid-program-rejected:{x['type']}@{x['site']}",
                          f"{fault} under python -O: {x['msg']}", wit)


def _child(inp: str, outp: str) -> None:
    import json
    common.repo_setup()
    from vf import simmpi
    from vf.exec import distrun
    assert not __debug__ or True
    with open(inp) as fh:
        descs = json.load(fh)
    out = []
    for desc in descs:
        pr = distrun.partition_all(desc, simmpi.RandomChooser(desc["seed"], "uniform"))
        raised = {str(r): {"type": type(e).__name__, "diagnostic": is_diagnostic(e),
                           "stage": pr.stage.get(r, "?"), "site": common.exc_site(e),
                           "msg": str(e)[:140]} for r, e in pr.errors.items()}
        outcome = "n/a"
        if not raised and len(pr.partitions) == desc["nranks"]:
            outcome = "silent-success"
            for j, style in enumerate(("uniform", "last", "one")):
                er = distrun.execute_all(desc, pr.partitions,
                                         simmpi.RandomChooser(desc["seed"] + j, style))
                if er.deadlock:
                    outcome = "deadlock"
                    break
                if er.step_limit:
                    outcome = "livelock"
                    break
                if er.errors:
                    outcome = "crash:" + type(next(iter(er.errors.values()))).__name__
                    break
        out.append({"raised": raised, "outcome": outcome, "debug": __debug__})
    with open(outp, "w") as fh:
        json.dump(out, fh)


def coverage_extra(tier: str, counters: dict[str, int], hist: dict[str, dict[str, int]]
                   ) -> dict[str, Any]:
    return {"fault_kinds": sorted(hist.get("fault_kinds_seen", {})),
            "expected_classes": hist.get("expected", {})}


def run_shard(shard: dict[str, Any], col: common.Collector) -> None:
    opt: list[Any] = []
    cap = 60 if shard["cases"] and shard["cases"][0].get("tier") == "quick" else 400
    for case in shard["cases"]:
        case["optimized"] = opt
        case["opt_cap"] = cap
        try:
            with common.time_limit(600):
                check_case(case, col)
        except common.Timeout:
            col.count("case_timeouts")
        except Exception as e:  # noqa: BLE001
            import traceback
            col.violation(f"C10:harness-exception:{type(e).__name__}@"
                          f"{common.exc_site(e, ('vf',))}",
                          f"unexpected {type(e).__name__}: {str(e)[:200]}",
                          {"case": case, "tb": traceback.format_exc()[-1500:]})
    col.count("mon.fault_kinds", len(col.hist.get("fault_kinds_seen", {})))
    if opt:
        try:
            optimized_world(opt, col)
        except Exception as e:  # noqa: BLE001
            col.inconc(f"python -O world: {type(e).__name__}: {str(e)[:100]}")


def replay(witness: dict[str, Any], col: common.Collector) -> None:
    check_case({"desc": witness["desc"], "fault": witness.get("fault")}, col)
    if witness.get("world") == "python -O":
        wf, why = distgen.well_formed(witness["desc"])
        optimized_world([(witness.get("fault", "replay"), witness["desc"], wf, why)], col)


if __name__ == "__main__":
    import sys as _sys
    if "--child" in _sys.argv:
        _i = _sys.argv.index("--child")
        _child(_sys.argv[_i + 1], _sys.argv[_i + 2])
