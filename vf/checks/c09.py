"""C09 -- every distributed partition is well-formed and all ranks agree on it.

An independent checker of every clause of the statement, over the objects each rank gets
from find_distributed_partition / number_distributed_tags on the simulated MPI.  Names a
part reads are obtained by a REFLECTIVE walk of the part's expressions (not from the part's
own bookkeeping); the bookkeeping is then required to match.  A second world runs every
rank in its own interpreter process with its own PYTHONHASHSEED (ranks exchange pickled
collective payloads through the parent): the per-rank partition summaries must be identical
to the thread world's.
"""
from __future__ import annotations

import json
import os
import subprocess
import sys
import tempfile
from typing import Any

from vf import common
from vf.gen import distgen

LEVEL = "exploration"
RULE = ("single producer per overall output / sent array; names read by a part are user inputs, "
        "names received by it or earlier parts, or outputs of earlier parts; received names are "
        "never outputs, sent names always; no communication node inside a part; local order "
        "acyclic; same number/order of communication rounds on all ranks; verifier accepts; "
        "numbered tags equal at both ends, distinct per message of a rank pair")
ASSUMPTIONS = ["simulated MPI collectives (payloads pickled per rank)"]
MIN_MONITOR = {"mon.partitions": 600, "mon.parts": 800, "mon.names_read": 1500,
               "mon.messages": 500, "mon.crossprocess_programs": 8}
SHARD_TIMEOUT = {"quick": 900, "thorough": 7200}
N_PROGRAMS = {"quick": 3000, "thorough": 24000}
N_XPROC = {"quick": 16, "thorough": 160}


def plan(tier: str, seed: int) -> list[dict[str, Any]]:
    rng = common.rng_for(seed, "c09")
    cases = [{"seed": rng.getrandbits(31)} for _ in range(N_PROGRAMS[tier])]
    n = common.NCPU * (1 if tier == "quick" else 3)
    shards = [{"cases": c, "idx": i, "xproc": 0} for i, c in
              enumerate(common.split_even(cases, n))]
    per = max(1, N_XPROC[tier] // len(shards))
    for s in shards:
        s["xproc"] = per
    return shards


def summary(p: Any) -> dict[str, Any]:
    """A process-independent description of one rank's partition."""
    out: dict[str, Any] = {"overall_output_names": list(p.overall_output_names), "parts": {}}
    for pid in sorted(p.parts):
        part = p.parts[pid]
        out["parts"][str(pid)] = {
            "needed": sorted(part.needed_pids),
            "user_inputs": sorted(part.user_input_names),
            "partition_inputs": sorted(part.partition_input_names),
            "outputs": sorted(part.output_names),
            "recv": {n: [r.src_rank, distgen.canon_tag(r.comm_tag), list(r.shape), str(r.dtype)]
                     for n, r in sorted(part.name_to_recv_node.items())},
            "send": {n: [[s.dest_rank, distgen.canon_tag(s.comm_tag)] for s in ss]
                     for n, ss in sorted(part.name_to_send_nodes.items())},
        }
    from vf.oracle import reflect
    out["expr_fingerprints"] = {n: reflect.fingerprint(e)
                                for n, e in sorted(p.name_to_output.items())}
    return out


def check_partition_set(desc: dict[str, Any], raw: dict[int, Any], numbered: dict[int, Any],
                        col: common.Collector, wit: dict[str, Any]) -> None:
    import pytato as pt
    from pytato.distributed.nodes import DistributedRecv, DistributedSendRefHolder
    from vf.oracle import reflect
    R = desc["nranks"]
    live = distgen.reachable(desc)
    for which, parts_by_rank in (("raw", raw), ("numbered", numbered)):
        sends_global: dict[Any, list[Any]] = {}
        recvs_global: dict[Any, list[Any]] = {}
        rounds: dict[int, list[Any]] = {}
        for r in range(R):
            p = parts_by_rank[r]
            col.count("mon.partitions")
            producers: dict[str, list[Any]] = {}
            received_by: dict[str, Any] = {}
            for pid, part in p.parts.items():
                col.count("mon.parts")
                if pid != part.pid:
                    col.violation("C09:pid-mismatch", f"rank {r}: key {pid} part.pid {part.pid}",
                                  wit)
                for n in part.output_names:
                    producers.setdefault(n, []).append(pid)
                for n in part.name_to_recv_node:
                    if n in received_by:
                        col.violation("C09:name-received-twice", f"rank {r}: {n}", wit)
                    received_by[n] = pid
            # --- single producer
            user_inputs_all = {n for part in p.parts.values() for n in part.user_input_names}
            for n in p.overall_output_names:
                if len(producers.get(n, [])) != 1:
                    col.violation("C09:overall-output-producers",
                                  f"rank {r}: output {n} produced by parts {producers.get(n)}",
                                  wit)
            for pid, part in p.parts.items():
                for n in part.name_to_send_nodes:
                    if len(producers.get(n, [])) != 1:
                        col.violation("C09:sent-name-producers",
                                      f"rank {r}: sent name {n} produced by {producers.get(n)}",
                                      wit)
                    elif n not in part.output_names and producers[n][0] > pid:
                        col.violation("C09:sent-name-produced-later",
                                      f"rank {r}: part {pid} sends {n} made by part "
                                      f"{producers[n][0]}", wit)
            for n in received_by:
                if n in producers:
                    col.violation("C09:received-name-is-part-output",
                                  f"rank {r}: {n} is received and also an output of part "
                                  f"{producers[n]}", wit)
            # --- acyclic local order (needed_pids), executable order
            order: list[Any] = []
            remaining = dict(p.parts)
            while remaining:
                ready = [pid for pid, part in remaining.items()
                         if part.needed_pids <= set(order)]
                if not ready:
                    col.violation("C09:local-part-order-cyclic", f"rank {r}: {sorted(remaining)}",
                                  wit)
                    break
                for pid in sorted(ready):
                    order.append(pid)
                    del remaining[pid]
            closure: dict[Any, set[Any]] = {}
            for pid in order:
                c: set[Any] = set()
                for q in p.parts[pid].needed_pids:
                    c |= {q} | closure.get(q, set())
                closure[pid] = c
            # --- names read, by reflection
            for pid, part in p.parts.items():
                read_ph: set[str] = set()
                for n in part.output_names:
                    e = p.name_to_output.get(n)
                    if e is None:
                        col.violation("C09:output-without-expression", f"rank {r}: {n}", wit)
                        continue
                    for node in reflect.walk(e):
                        if isinstance(node, (DistributedRecv, DistributedSendRefHolder)):
                            col.violation("C09:communication-node-inside-part",
                                          f"rank {r} part {pid} output {n}: "
                                          f"{type(node).__name__}", wit)
                        if isinstance(node, pt.Placeholder):
                            read_ph.add(node.name)
                for ss in part.name_to_send_nodes.values():
                    for s in ss:
                        for node in reflect.walk(s.data):
                            if isinstance(node, (DistributedRecv, DistributedSendRefHolder)):
                                col.violation("C09:communication-node-inside-part",
                                              f"rank {r} part {pid}: send data holds "
                                              f"{type(node).__name__}", wit)
                col.count("mon.names_read", len(read_ph))
                # --- sharing: the rank's graph was duplicate-free, so is every part (a
                # replaced input is ONE placeholder however many users it has)
                try:
                    exprs = {n: p.name_to_output[n] for n in part.output_names
                             if n in p.name_to_output}
                    if exprs and reflect.duplicate_groups(
                            pt.make_dict_of_named_arrays(exprs)) > 0:
                        col.violation("C09:part-holds-duplicate-nodes",
                                      f"rank {r} part {pid}: structurally equal distinct nodes "
                                      "inside one part (sharing of a replaced input lost)", wit)
                    col.count("mon.part_sharing")
                except Exception as e:  # noqa: BLE001
                    col.histo("part_sharing_unavailable", type(e).__name__)
                declared = set(part.user_input_names) | set(part.partition_input_names)
                if read_ph != declared:
                    col.violation("C09:declared-inputs-differ-from-names-read",
                                  f"rank {r} part {pid}: reads {sorted(read_ph)}, declares "
                                  f"{sorted(declared)}", wit)
                if set(part.user_input_names) & set(part.partition_input_names):
                    col.violation("C09:name-both-user-and-partition-input",
                                  f"rank {r} part {pid}", wit)
                earlier = closure.get(pid, set())
                for n in read_ph:
                    okn = False
                    if n in part.name_to_recv_node:
                        okn = True
                    elif n in received_by and received_by[n] in earlier:
                        okn = True
                    elif any(q in earlier for q in producers.get(n, [])):
                        okn = True
                    elif n in part.user_input_names and n not in producers \
                            and n not in received_by:
                        okn = True          # a user input
                    if not okn:
                        col.violation("C09:part-reads-undefined-name",
                                      f"rank {r} part {pid} reads {n}: not a user input, not "
                                      "received by this or an earlier part, not an output of an "
                                      "earlier part", wit)
                # --- communication bookkeeping
                for n, rv in part.name_to_recv_node.items():
                    recvs_global.setdefault((rv.src_rank, r, _tk(rv.comm_tag)), []).append(
                        (r, pid, tuple(rv.shape), str(rv.dtype)))
                for n, ss in part.name_to_send_nodes.items():
                    if n not in part.output_names and n not in producers:
                        col.violation("C09:sent-name-not-an-output", f"rank {r} part {pid}: {n}",
                                      wit)
                    for s in ss:
                        sends_global.setdefault((r, s.dest_rank, _tk(s.comm_tag)), []).append(
                            (r, pid, tuple(s.data.shape), str(s.data.dtype)))
            del user_inputs_all
            # communication rounds of this rank in part order
            rounds[r] = [(sorted((rv.src_rank, _tk(rv.comm_tag))
                                 for rv in p.parts[pid].name_to_recv_node.values()),
                          sorted((s.dest_rank, _tk(s.comm_tag))
                                 for ss in p.parts[pid].name_to_send_nodes.values() for s in ss))
                         for pid in order]
        # --- global matching
        for key, lst in sends_global.items():
            col.count("mon.messages")
            if len(lst) != 1:
                col.violation(f"C09:duplicate-send:{which}", f"{key}: {lst}", wit)
            rv = recvs_global.get(key)
            if not rv:
                col.violation(f"C09:send-without-receive:{which}", f"{key}", wit)
            elif rv[0][2:] != lst[0][2:]:
                col.violation(f"C09:send-recv-shape-dtype:{which}", f"{key}: {lst[0]} vs {rv[0]}",
                              wit)
        for key, lst in recvs_global.items():
            if len(lst) != 1:
                col.violation(f"C09:duplicate-receive:{which}", f"{key}: {lst}", wit)
            if key not in sends_global:
                col.violation(f"C09:receive-without-send:{which}", f"{key}", wit)
        # every live communication operation of the program is in the partition
        want_s, want_r = distgen.comm_ops(desc)
        if which == "raw" and len(sends_global) != len(want_s):
            col.violation("C09:communication-lost", f"program has {len(want_s)} messages, "
                          f"partitions hold {len(sends_global)}", wit)
        del want_r
        # --- cross-rank part graph acyclic (send part -> receive part) = a global batch order
        edges: dict[Any, set[Any]] = {}
        for r in range(R):
            p = parts_by_rank[r]
            for pid, part in p.parts.items():
                edges.setdefault((r, pid), set()).update((r, q) for q in part.needed_pids)
        for key, rl in recvs_global.items():
            sl = sends_global.get(key)
            if sl:
                edges.setdefault((rl[0][0], rl[0][1]), set()).add((sl[0][0], sl[0][1]))
        state: dict[Any, int] = {}

        def dfs(k: Any) -> bool:
            if state.get(k) == 1:
                return True
            if state.get(k) == 2:
                return False
            state[k] = 1
            for m in edges.get(k, ()):
                if dfs(m):
                    return True
            state[k] = 2
            return False
        if any(dfs(k) for k in list(edges)):
            col.violation(f"C09:global-part-graph-cyclic:{which}",
                          "the send-part -> receive-part graph over all ranks has a cycle", wit)
        # --- numbered tags
        if which == "numbered":
            for key in list(sends_global) + list(recvs_global):
                if not isinstance(key[2], tuple) or key[2][0] != "int":
                    col.violation("C09:tag-not-an-integer", f"{key}", wit)
            per_pair: dict[Any, list[Any]] = {}
            for (a, b, t) in sends_global:
                per_pair.setdefault((a, b), []).append(t)
            for pair, ts in per_pair.items():
                if len(set(ts)) != len(ts):
                    col.violation("C09:numbered-tags-collide", f"{pair}: {ts}", wit)
    del live


def _tk(t: Any) -> Any:
    if isinstance(t, int) and not isinstance(t, bool):
        return ("int", int(t))
    return ("sym", repr(t))


def eval_tag(t: str) -> Any:
    import ast
    return ast.literal_eval(t)


def check_case(case: dict[str, Any], col: common.Collector) -> Any:
    from vf import simmpi
    from vf.exec import distrun
    desc = case.get("desc") or distgen.generate(case["seed"])
    wit = {"desc": desc}
    R = desc["nranks"]
    # partition under a random collective schedule
    pr = distrun.partition_all(desc, simmpi.RandomChooser(desc["seed"], "uniform"))
    if not pr.errors and len(pr.partitions) != R:
        blocked = next((d for _s, _r, k, d in pr.world.events if k == "deadlock"), None)
        col.violation(f"C09:collective-deadlock:{'+'.join(sorted({pr.stage.get(r, '?') for r in range(R) if r not in pr.partitions}))}",
                      f"no rank raised, but only ranks {sorted(pr.partitions)} of {R} returned "
                      f"from find/verify/number: the others wait in a collective forever "
                      f"({blocked}); stages {pr.stage}", wit)
        col.case()
        return None
    if pr.errors or len(pr.partitions) != R:
        for r, e in pr.errors.items():
            col.violation(f"C09:raises:{pr.stage.get(r)}:{type(e).__name__}@{common.exc_site(e)}",
                          f"rank {r} raised {type(e).__name__} at stage {pr.stage.get(r)} on a "
                          f"valid program: {str(e)[:160]}", wit)
        col.case()
        return None
    check_partition_set(desc, pr.raw_partitions, pr.partitions, col, wit)
    # all ranks got the same next tag and the same tag map
    if len(set(pr.next_tag.values())) > 1:
        col.violation("C09:ranks-disagree-on-next-tag", str(pr.next_tag), wit)
    # matching tags: for every message, integer at the sender == integer at the receiver
    sym_to_int: dict[Any, set[int]] = {}
    for r in range(R):
        praw, pnum = pr.raw_partitions[r], pr.partitions[r]
        for pid, part in praw.parts.items():
            npart = pnum.parts[pid]
            for n, rv in part.name_to_recv_node.items():
                sym_to_int.setdefault((rv.src_rank, r, repr(rv.comm_tag)), set()).add(
                    npart.name_to_recv_node[n].comm_tag)
            for n, ss in part.name_to_send_nodes.items():
                for s, s2 in zip(ss, npart.name_to_send_nodes[n]):
                    sym_to_int.setdefault((r, s.dest_rank, repr(s.comm_tag)), set()).add(
                        s2.comm_tag)
    for key, ints in sym_to_int.items():
        if len(ints) != 1:
            col.violation("C09:tag-differs-between-ends", f"{key}: {sorted(ints)}", wit)
    # rounds: a second partitioning under another collective schedule gives the same result
    pr2 = distrun.partition_all(desc, simmpi.RandomChooser(desc["seed"] + 1, "last"))
    if not pr2.errors and len(pr2.partitions) == R:
        for r in range(R):
            if summary(pr.partitions[r]) != summary(pr2.partitions[r]):
                col.violation("C09:partition-depends-on-collective-schedule", f"rank {r}", wit)
                break
    nparts = max(len(p.parts) for p in pr.partitions.values())
    col.histo("parts_max", str(nparts))
    col.histo("tag_style", desc["tag_style"])
    col.case(common.stable_hash(desc), R >= 2 and nparts >= 2,
             {"ranks": R, "pattern": desc["pattern"], "parts_max": nparts,
              "tag_style": desc["tag_style"]})
    return pr


# ------------------------------------------------------------------ process world

def cross_process(desc: dict[str, Any], thread_summaries: dict[int, Any], col: common.Collector
                  ) -> None:
    """Each rank in its own interpreter (own PYTHONHASHSEED); collectives relayed here."""
    wit = {"desc": desc, "world": "process"}
    R = desc["nranks"]
    d = tempfile.mkdtemp(prefix="vf-c09-")
    try:
        with open(os.path.join(d, "desc.json"), "w") as fh:
            json.dump(desc, fh)
        procs = []
        for r in range(R):
            env = dict(os.environ, PYTHONHASHSEED=str(101 + 37 * r + desc["seed"] % 17),
                       PYTHONPATH=os.pathsep.join([os.path.dirname(os.path.dirname(
                           os.path.dirname(os.path.abspath(__file__)))),
                           os.environ.get("PYTHONPATH", "")]))
            procs.append(subprocess.Popen(
                [sys.executable, "-m", "vf.checks.c09", "--rank", str(r), "--dir", d],
                env=env, stdout=subprocess.PIPE, stderr=subprocess.PIPE))
        # relay: file-based collectives (rank writes <seq>.<rank>.in, reads <seq>.<rank>.out)
        import pickle
        import time
        seq = 0
        deadline = time.time() + 240
        done = False
        while not done and time.time() < deadline:
            if all(p.poll() is not None for p in procs):
                break
            ins = [os.path.join(d, f"{seq}.{r}.in") for r in range(R)]
            if all(os.path.exists(f) for f in ins):
                time.sleep(0.01)
                entries = []
                for f in ins:
                    with open(f, "rb") as fh:
                        entries.append(pickle.load(fh))
                names = {e[0] for e in entries}
                outs: list[Any]
                if len(names) != 1:
                    outs = [("error", f"ranks disagree on collective {seq}: {names}")] * R
                else:
                    nm = entries[0][0]
                    vals = [e[1] for e in entries]
                    root = entries[0][2]
                    if nm == "bcast":
                        outs = [("ok", vals[root])] * R
                    elif nm == "gather":
                        outs = [("ok", vals if r == root else None) for r in range(R)]
                    elif nm == "allreduce":
                        outs = [("reduce", vals)] * R
                    else:
                        outs = [("ok", None)] * R
                for r in range(R):
                    tmp = os.path.join(d, f"{seq}.{r}.out.tmp")
                    with open(tmp, "wb") as fh:
                        pickle.dump(outs[r], fh)
                    os.rename(tmp, os.path.join(d, f"{seq}.{r}.out"))
                seq += 1
            else:
                time.sleep(0.005)
        for p in procs:
            try:
                p.wait(timeout=max(1, deadline - time.time()))
            except subprocess.TimeoutExpired:
                p.kill()
        for r in range(R):
            f = os.path.join(d, f"summary.{r}.json")
            if not os.path.exists(f):
                err = procs[r].stderr.read().decode()[-400:] if procs[r].stderr else ""
                col.histo("crossprocess_failed", err.strip().splitlines()[-1][:80] if err.strip()
                          else "no-output")
                return
            with open(f) as fh:
                s = json.load(fh)
            if s != json.loads(json.dumps(thread_summaries[r])):
                col.violation("C09:process-world-differs-from-thread-world",
                              f"rank {r}: partition obtained in an interpreter with another "
                              "hash seed differs", wit)
                return
        col.count("mon.crossprocess_programs")
    finally:
        import shutil
        shutil.rmtree(d, ignore_errors=True)


def run_shard(shard: dict[str, Any], col: common.Collector) -> None:
    nx = shard.get("xproc", 0)
    for case in shard["cases"]:
        try:
            with common.time_limit(300):
                pr = check_case(case, col)
                if pr is not None and nx > 0 and pr.partitions and \
                        len(pr.partitions) >= 2 and \
                        max(len(p.parts) for p in pr.partitions.values()) >= 2:
                    nx -= 1
                    desc = distgen.generate(case["seed"])
                    cross_process(desc, {r: summary(p) for r, p in pr.partitions.items()}, col)
        except common.Timeout:
            col.count("case_timeouts")
        except Exception as e:  # noqa: BLE001
            import traceback
            col.violation(f"C09:harness-exception:{type(e).__name__}@"
                          f"{common.exc_site(e, ('vf',))}",
                          f"unexpected {type(e).__name__}: {str(e)[:200]}",
                          {"case": case, "tb": traceback.format_exc()[-1500:]})


def replay(witness: dict[str, Any], col: common.Collector) -> None:
    pr = check_case({"desc": witness["desc"]}, col)
    if witness.get("world") == "process" and pr is not None:
        cross_process(witness["desc"], {r: summary(p) for r, p in pr.partitions.items()}, col)


# ------------------------------------------------------------------ child (one rank)

class FileComm:
    """mpi4py-like communicator whose collectives go through files relayed by the parent."""
    def __init__(self, rank: int, size: int, d: str) -> None:
        self.rank = rank
        self.size = size
        self.d = d
        self.seq = 0

    def _coll(self, name: str, value: Any, root: int = 0, op: Any = None) -> Any:
        import pickle
        import time
        tmp = os.path.join(self.d, f"{self.seq}.{self.rank}.in.tmp")
        with open(tmp, "wb") as fh:
            pickle.dump((name, value, root), fh)
        os.rename(tmp, os.path.join(self.d, f"{self.seq}.{self.rank}.in"))
        out = os.path.join(self.d, f"{self.seq}.{self.rank}.out")
        t0 = time.time()
        while not os.path.exists(out):
            if time.time() - t0 > 200:
                raise TimeoutError(name)
            time.sleep(0.005)
        with open(out, "rb") as fh:
            kind, val = pickle.load(fh)
        self.seq += 1
        if kind == "error":
            raise RuntimeError(val)
        if kind == "reduce":
            acc = val[0]
            for v in val[1:]:
                acc = op.fn(acc, v, None)
            return acc
        return val

    def bcast(self, obj: Any = None, root: int = 0) -> Any:
        return self._coll("bcast", obj, root)

    def gather(self, obj: Any, root: int = 0) -> Any:
        return self._coll("gather", obj, root)

    def allreduce(self, obj: Any, op: Any = None) -> Any:
        return self._coll("allreduce", obj, 0, op)

    def barrier(self) -> None:
        self._coll("barrier", None)


def _child(rank: int, d: str) -> None:
    common.repo_setup()
    from vf import simmpi
    simmpi.install()
    from pytato.distributed.partition import find_distributed_partition
    from pytato.distributed.tags import number_distributed_tags
    from pytato.distributed.verify import verify_distributed_partition
    with open(os.path.join(d, "desc.json")) as fh:
        desc = json.load(fh)
    # a different allocation history per rank: build and discard unrelated graphs first
    junk = [distgen.build_rank(distgen.generate(1000 + rank * 7 + j), 0) for j in range(rank + 1)]
    del junk
    comm = FileComm(rank, desc["nranks"], d)
    dag = distgen.build_rank(desc, rank)
    p = find_distributed_partition(comm, dag)
    verify_distributed_partition(comm, p)
    p, _nt = number_distributed_tags(comm, p, base_tag=42)
    tmp = os.path.join(d, f"summary.{rank}.json.tmp")
    with open(tmp, "w") as fh:
        json.dump(summary(p), fh)
    os.rename(tmp, os.path.join(d, f"summary.{rank}.json"))


if __name__ == "__main__":
    if "--rank" in sys.argv:
        _child(int(sys.argv[sys.argv.index("--rank") + 1]), sys.argv[sys.argv.index("--dir") + 1])
