"""Execute what pytato's loopy target generates, through loopy's plain C target,
gcc and ctypes -- never through loopy's own (OpenCL / ExecutableC) executors.

The harness target is a ``pytato.target.loopy.LoopyTarget`` subclass (the
documented extension point).  The runner parses the emitted C signature,
allocates every buffer itself (inputs, outputs, global temporaries) with canary
words around each, pre-fills outputs/temporaries with 0xFF bytes (NaN for floats)
so that a load scheduled before its store is visible, and calls the function.
"""
from __future__ import annotations

import ctypes
import hashlib
import os
import re
import subprocess
import tempfile
from typing import Any

import numpy as np

_INCLUDES = ("#include <stdint.h>\n#include <stdbool.h>\n#include <limits.h>\n"
             "#include <math.h>\n#include <complex.h>\n")


def _missing_helpers(code: str) -> str:
    """loopy's plain C target sometimes calls lpy_min_<t>/lpy_max_<t> (integer min/max
    reductions) without emitting their definitions (only its OpenCL targets always do).
    Define exactly those that are used but not defined (trusted-base adaptation)."""
    out = []
    for t in ("int8", "int16", "int32", "int64", "uint8", "uint16", "uint32", "uint64"):
        for f, op in (("min", "<"), ("max", ">")):
            name = f"lpy_{f}_{t}"
            if re.search(name + r"\s*\(", code) and not re.search(
                    name + r"\s*\([^)]*\)\s*\{", code):
                out.append(f"static inline {t}_t {name}({t}_t a, {t}_t b) "
                           f"{{ return a {op} b ? a : b; }}\n")
    return "".join(out)


CANARY = 64
CANARY_BYTE = 0xC3
FILL_BYTE = 0xFF


class CodegenFailure(Exception):
    """generate_loopy / loopy preprocessing / scheduling / codegen / gcc failed."""

    def __init__(self, stage: str, exc: BaseException | None, detail: str = ""):
        self.stage = stage
        self.exc = exc
        self.detail = detail
        super().__init__(f"{stage}: {type(exc).__name__ if exc else ''} {detail[:300]}")


class KernelContractError(Exception):
    """The generated kernel's interface disagrees with what the program declares."""


def get_target() -> Any:
    """Instance of the harness LoopyTarget (imported lazily: pytato/loopy must be
    imported only after repo_setup)."""
    from vf.exec.lptarget import VLoopyTarget
    return VLoopyTarget()


def lp_c_target() -> Any:
    from vf.exec.lptarget import VCTarget
    return VCTarget()


# ---------------------------------------------------------------------------

_SIG_RE = re.compile(r"void\s+(\w+)\s*\(([^)]*)\)\s*\{")


def parse_signature(code: str, fname: str) -> list[tuple[str, bool, str]]:
    """-> [(name, is_pointer, ctype text)] for function *fname*."""
    for m in _SIG_RE.finditer(code):
        if m.group(1) != fname:
            continue
        params = []
        body = m.group(2).strip()
        if not body:
            return []
        for p in body.split(","):
            p = p.strip()
            nm = re.findall(r"[A-Za-z_]\w*", p)[-1]
            is_ptr = "*" in p
            ctype = p[: p.rfind(nm)].replace("__restrict__", "").replace("const", "")
            ctype = ctype.replace("*", "").strip()
            params.append((nm, is_ptr, ctype))
        return params
    raise KernelContractError(f"no definition of {fname} found in generated C")


_SCALAR_CT = {"int8": ctypes.c_int8, "int16": ctypes.c_int16, "int32": ctypes.c_int32,
              "int64": ctypes.c_int64, "uint8": ctypes.c_uint8, "uint16": ctypes.c_uint16,
              "uint32": ctypes.c_uint32, "uint64": ctypes.c_uint64,
              "float32": ctypes.c_float, "float64": ctypes.c_double, "bool": ctypes.c_bool}


class Compiled:
    def __init__(self, t_unit: Any, code: str, lib: Any, fname: str,
                 params: list[tuple[str, bool, str]], kernel: Any):
        self.t_unit = t_unit
        self.code = code
        self.lib = lib
        self.fname = fname
        self.params = params
        self.kernel = kernel


_workdir: str | None = None
_lib_cache: dict[str, Any] = {}


def workdir() -> str:
    global _workdir
    if _workdir is None:
        _workdir = tempfile.mkdtemp(prefix="vf-cc-")
        import atexit
        import shutil
        atexit.register(shutil.rmtree, _workdir, True)
    return _workdir


def gen_c(t_unit: Any) -> tuple[str, Any]:
    """loopy preprocessing + scheduling + C code generation."""
    import warnings

    import loopy as lp
    # loopy's own diagnostics about the kernel it was handed are observations too: its
    # (deprecated) single-writer heuristic reports when it had to ADD a dependency the
    # kernel lacked -- i.e. pytato omitted it
    with warnings.catch_warnings(record=True) as wlist:
        warnings.simplefilter("always")
        try:
            t_unit = lp.preprocess_program(t_unit)
        except Exception as e:  # noqa: BLE001
            raise CodegenFailure("loopy-preprocess", e, str(e)) from e
        try:
            t_unit = lp.linearize(t_unit)
        except Exception as e:  # noqa: BLE001
            raise CodegenFailure("loopy-schedule", e, str(e)) from e
        try:
            cgr = lp.generate_code_v2(t_unit)
            code = cgr.device_code()
        except Exception as e:  # noqa: BLE001
            raise CodegenFailure("loopy-codegen", e, str(e)) from e
    DEP_REPAIRS[:] = [str(w.message)[:300] for w in wlist
                      if "single-writer dependency heuristic added dependencies"
                      in str(w.message)]
    return code, t_unit


DEP_REPAIRS: list[str] = []


def compile_c(code: str, extra_flags: tuple[str, ...] = ()) -> Any:
    src = _INCLUDES + _missing_helpers(code) + code
    key = hashlib.sha1((src + repr(extra_flags)).encode()).hexdigest()
    if key in _lib_cache:
        return _lib_cache[key]
    wd = workdir()
    cpath = os.path.join(wd, key + ".c")
    sopath = os.path.join(wd, key + ".so")
    with open(cpath, "w") as f:
        f.write(src)
    r = subprocess.run(["gcc", "-O1", "-ffp-contract=off", "-fno-fast-math", "-fwrapv",
                        "-w", "-shared", "-fPIC", *extra_flags, "-o", sopath, cpath, "-lm"],
                       capture_output=True, text=True)
    if r.returncode != 0:
        raise CodegenFailure("gcc", None, r.stderr[:1200] + "\n...\n" + r.stderr[-800:])
    lib = ctypes.CDLL(sopath)
    _lib_cache[key] = lib
    try:
        os.unlink(cpath)
    except OSError:
        pass
    return lib


def compile_program(bp: Any) -> Compiled:
    t_unit = bp.program
    fname = t_unit.default_entrypoint.name
    code, t2 = gen_c(t_unit)
    repairs = list(DEP_REPAIRS)
    lib = compile_c(code)
    params = parse_signature(code, fname)
    cp = Compiled(t2, code, lib, fname, params, t2.default_entrypoint)
    cp.dep_repairs = repairs          # type: ignore[attr-defined]
    return cp


def _eval_shape(shape: Any, scalars: dict[str, int]) -> tuple[int, ...]:
    from pymbolic.mapper.evaluator import EvaluationMapper
    out = []
    for s in shape:
        if isinstance(s, (int, np.integer)):
            out.append(int(s))
        else:
            out.append(int(EvaluationMapper(scalars)(s)))
    return tuple(out)


def _alloc(shape: tuple[int, ...], dtype: np.dtype[Any], fill: int | None,
           src: np.ndarray | None) -> tuple[np.ndarray, np.ndarray]:
    nbytes = int(np.prod(shape, dtype=np.int64)) * dtype.itemsize
    raw = np.full(nbytes + 2 * CANARY + 64, CANARY_BYTE, dtype=np.uint8)
    # align data start to 16
    base = raw.ctypes.data + CANARY
    off = CANARY + ((-base) % 16)
    data = raw[off:off + nbytes]
    if src is not None:
        data[:] = np.frombuffer(np.ascontiguousarray(src).tobytes(), dtype=np.uint8)
    elif fill is not None:
        data[:] = fill
    view = data.view(dtype).reshape(shape) if nbytes else np.zeros(shape, dtype)
    raw_meta = raw
    raw_meta.flags.writeable = True
    return raw_meta, view


def _canaries_ok(raw: np.ndarray, view: np.ndarray) -> bool:
    nbytes = view.size * view.dtype.itemsize
    if nbytes == 0:
        return bool(np.all(raw == CANARY_BYTE))
    start = view.ctypes.data - raw.ctypes.data
    return bool(np.all(raw[:start] == CANARY_BYTE)
                and np.all(raw[start + nbytes:] == CANARY_BYTE))


class RunResult:
    def __init__(self) -> None:
        self.outputs: dict[str, np.ndarray] = {}
        self.temps: dict[str, np.ndarray] = {}
        self.arg_info: dict[str, dict[str, Any]] = {}
        self.canary_violations: list[str] = []
        self.input_modified: list[str] = []
        self.unused_inputs: list[str] = []


def run(cp: Compiled, bp: Any, inputs: dict[str, Any]) -> RunResult:
    """Call the compiled kernel.  *inputs*: user inputs by name (arrays / ints)."""
    import loopy as lp
    knl = cp.kernel
    allin: dict[str, Any] = dict(bp.bound_arguments)
    for k, v in inputs.items():
        if k in allin:
            raise KernelContractError(f"input {k!r} is already a bound argument")
        allin[k] = v
    scalars: dict[str, int] = {k: int(v) for k, v in allin.items()
                               if np.ndim(v) == 0 and np.asarray(v).dtype.kind in "iu"
                               and k in knl.arg_dict
                               and isinstance(knl.arg_dict[k], lp.ValueArg)}
    res = RunResult()
    # names of the offset arguments loopy created for `offset=lp.auto` arrays
    offset_args = {a.offset for a in knl.args
                   if isinstance(a, lp.ArrayArg) and isinstance(getattr(a, "offset", None), str)}
    cargs: list[Any] = []
    held: list[tuple[str, np.ndarray, np.ndarray, np.ndarray | None, bool]] = []
    seen_inputs: set[str] = set()
    for name, is_ptr, _ctype in cp.params:
        if name in knl.arg_dict:
            arg = knl.arg_dict[name]
            if isinstance(arg, lp.ValueArg):
                dt = np.dtype(arg.dtype.numpy_dtype)
                if name in allin:
                    val = allin[name]
                    seen_inputs.add(name)
                elif name in offset_args or name.endswith("_offset"):
                    val = 0
                else:
                    raise KernelContractError(f"kernel wants scalar argument {name!r} "
                                              "that the program does not supply")
                cargs.append(_SCALAR_CT[dt.name](val))
                res.arg_info[name] = {"kind": "value", "dtype": dt.name}
                continue
            dt = np.dtype(arg.dtype.numpy_dtype)
            shape = _eval_shape(arg.shape, scalars)
            res.arg_info[name] = {"kind": "array", "dtype": dt.name, "shape": shape,
                                  "is_input": bool(arg.is_input),
                                  "is_output": bool(arg.is_output)}
            if arg.is_input and not arg.is_output:
                if name not in allin:
                    raise KernelContractError(f"kernel wants input array {name!r} "
                                              "that the program does not supply")
                src = np.asarray(allin[name])
                seen_inputs.add(name)
                if src.dtype != dt or src.shape != shape:
                    raise KernelContractError(
                        f"kernel argument {name!r} declared {dt}{shape}, value is "
                        f"{src.dtype}{src.shape}")
                raw, view = _alloc(shape, dt, None, src)
                held.append((name, raw, view, src, False))
            else:
                raw, view = _alloc(shape, dt, FILL_BYTE, None)
                held.append((name, raw, view, None, True))
            cargs.append(ctypes.c_void_p(view.ctypes.data if view.size else
                                         raw.ctypes.data + CANARY))
        elif name in knl.temporary_variables:
            tv = knl.temporary_variables[name]
            dt = np.dtype(tv.dtype.numpy_dtype)
            shape = _eval_shape(tv.shape, scalars)
            raw, view = _alloc(shape, dt, FILL_BYTE, None)
            held.append((name, raw, view, None, False))
            res.temps[name] = view
            cargs.append(ctypes.c_void_p(view.ctypes.data if view.size else
                                         raw.ctypes.data + CANARY))
        else:
            raise KernelContractError(f"C parameter {name!r} is neither a kernel argument "
                                      "nor a temporary")
    fn = getattr(cp.lib, cp.fname)
    fn.restype = None
    fn(*cargs)
    for name, raw, view, src, is_out in held:
        if not _canaries_ok(raw, view):
            res.canary_violations.append(name)
        if src is not None and view.size and not np.array_equal(
                view.reshape(-1).view(np.uint8),
                np.frombuffer(np.ascontiguousarray(src).tobytes(), dtype=np.uint8)):
            res.input_modified.append(name)
        if is_out:
            res.outputs[name] = view.copy()
    # outputs that are not C parameters (loopy drops zero-size outputs)
    for name, arg in knl.arg_dict.items():
        if isinstance(arg, lp.ArrayArg) and arg.is_output and name not in res.outputs:
            shape = _eval_shape(arg.shape, scalars)
            dt = np.dtype(arg.dtype.numpy_dtype)
            if int(np.prod(shape, dtype=np.int64)) != 0:
                raise KernelContractError(f"non-empty output {name!r} is not a parameter "
                                          "of the generated C function")
            res.outputs[name] = np.zeros(shape, dt)
            res.arg_info[name] = {"kind": "array", "dtype": dt.name, "shape": shape,
                                  "is_input": False, "is_output": True, "dropped": True}
    res.unused_inputs = sorted(set(inputs) - seen_inputs)
    return res


_PRE: list[Any] = []
_PATCHED = [False]


def _patch_capture() -> None:
    """Observe (not alter) the translation unit pytato hands to loopy's first
    transformation (make_reduction_inames_unique): the kernel as pytato built it."""
    if _PATCHED[0]:
        return
    import pytato.target.loopy.codegen as cg
    real_lp = cg.lp
    orig = real_lp.make_reduction_inames_unique

    class _LP:
        def __getattr__(self, name: str) -> Any:
            return getattr(real_lp, name)

        def make_reduction_inames_unique(self, t_unit: Any, *a: Any, **k: Any) -> Any:
            _PRE[:] = [t_unit]
            return orig(t_unit, *a, **k)
    cg.lp = _LP()     # type: ignore[assignment]
    _PATCHED[0] = True


def generate(expr: Any, **kw: Any) -> Any:
    """pt.generate_loopy with the harness target; wraps failures.  The returned bound
    program carries ``vf_pre_t_unit``: the translation unit before loopy's first pass."""
    import pytato as pt
    _patch_capture()
    _PRE[:] = []
    try:
        bp = pt.generate_loopy(expr, target=get_target(), **kw)
    except Exception as e:  # noqa: BLE001
        raise CodegenFailure("generate_loopy", e, str(e)) from e
    try:
        object.__setattr__(bp, "vf_pre_t_unit", _PRE[0] if _PRE else None)
    except Exception:  # noqa: BLE001
        pass
    return bp


def subst_arity_consistent(t_unit: Any) -> bool:
    """Every invocation of a substitution rule in the kernel has the rule's arity."""
    import dataclasses

    import pymbolic.primitives as p
    knl = t_unit.default_entrypoint
    rules = {n: len(r.arguments) for n, r in knl.substitutions.items()}
    ok = [True]

    def walk(e: Any, called: bool = False) -> None:
        if isinstance(e, p.Call) and isinstance(e.function, p.Variable) \
                and e.function.name in rules:
            if len(e.parameters) != rules[e.function.name]:
                ok[0] = False
            for c in e.parameters:
                walk(c)
            return
        if isinstance(e, p.Variable) and e.name in rules and rules[e.name] != 0:
            ok[0] = False
        if isinstance(e, p.ExpressionNode):
            for f in dataclasses.fields(e):  # type: ignore[arg-type]
                v = getattr(e, f.name)
                if isinstance(v, tuple):
                    for c in v:
                        walk(c)
                else:
                    walk(v)
    for insn in knl.instructions:
        ex = getattr(insn, "expression", None)
        if ex is not None:
            walk(ex)
    for r in knl.substitutions.values():
        walk(r.expression)
    return ok[0]


# ---------------------------------------------------------------------------
# attribution experiment: loopy's `//` and `%` on integers are FLOOR operations; its C
# printer emits the truncating C operators when it believes the operands non-negative.
# Rewriting every integer `/` and `%` inside array subscripts of the emitted C text to
# floor operations must not change anything if that belief is right.

_FLOOR_HELPERS = """
static inline long long vf_fdiv(long long a, long long b)
{ long long q = a / b; return ((a % b != 0) && ((a < 0) != (b < 0))) ? q - 1 : q; }
static inline long long vf_fmod(long long a, long long b)
{ long long r = a % b; return ((r != 0) && ((r < 0) != (b < 0))) ? r + b : r; }
"""


class _SubscriptParser:
    """Recursive descent over the integer-expression subset loopy emits in subscripts."""
    import re as _re
    TOK = _re.compile(r"\s*(?:([A-Za-z_]\w*)|(\d+[uUlL]*)|([-+*/%()\[\],]))")

    def __init__(self, text: str):
        self.toks: list[tuple[str, str]] = []
        pos = 0
        text = text.rstrip()
        while pos < len(text):
            m = self.TOK.match(text, pos)
            if m is None:
                raise ValueError("unsupported token")
            pos = m.end()
            if m.group(1):
                self.toks.append(("id", m.group(1)))
            elif m.group(2):
                self.toks.append(("int", m.group(2)))
            else:
                self.toks.append(("op", m.group(3)))
        self.i = 0
        self.rewrites = 0

    def peek(self) -> str | None:
        return self.toks[self.i][1] if self.i < len(self.toks) and \
            self.toks[self.i][0] == "op" else None

    def take(self, op: str) -> None:
        if self.peek() != op:
            raise ValueError(f"expected {op}")
        self.i += 1

    def expr(self) -> str:
        s = self.term()
        while self.peek() in ("+", "-"):
            op = self.toks[self.i][1]
            self.i += 1
            s = f"{s} {op} {self.term()}"
        return s

    def term(self) -> str:
        s = self.unary()
        while self.peek() in ("*", "/", "%"):
            op = self.toks[self.i][1]
            self.i += 1
            r = self.unary()
            if op == "*":
                s = f"{s} * {r}"
            else:
                self.rewrites += 1
                s = f"{'vf_fdiv' if op == '/' else 'vf_fmod'}({s}, {r})"
        return s

    def unary(self) -> str:
        if self.peek() in ("-", "+"):
            op = self.toks[self.i][1]
            self.i += 1
            return f"{op}{self.unary()}"
        return self.postfix()

    def postfix(self) -> str:
        if self.i >= len(self.toks):
            raise ValueError("unexpected end")
        kind, val = self.toks[self.i]
        if kind in ("id", "int"):
            self.i += 1
            s = val
        elif val == "(":
            self.i += 1
            s = f"({self.expr()})"
            self.take(")")
        else:
            raise ValueError("unexpected operator")
        while self.peek() in ("[", "("):
            if self.peek() == "[":
                self.i += 1
                s = f"{s}[{self.expr()}]"
                self.take("]")
            else:
                if kind != "id":
                    raise ValueError("call of a non-identifier (cast?)")
                self.i += 1
                args = []
                if self.peek() != ")":
                    args.append(self.expr())
                    while self.peek() == ",":
                        self.i += 1
                        args.append(self.expr())
                self.take(")")
                s = f"{s}({', '.join(args)})"
        return s

    def parse(self) -> str:
        s = self.expr()
        if self.i != len(self.toks):
            raise ValueError("trailing tokens")
        return s


def floor_subscript_code(code: str) -> tuple[str, int] | None:
    """The C text with floor semantics for every `/`, `%` in array subscripts; None when a
    subscript is outside the supported expression subset.  -> (code, number of rewrites)"""
    out: list[str] = []
    i = 0
    n_rw = 0
    while i < len(code):
        c = code[i]
        if c != "[":
            out.append(c)
            i += 1
            continue
        depth, j = 1, i + 1
        while j < len(code) and depth:
            depth += {"[": 1, "]": -1}.get(code[j], 0)
            j += 1
        if depth:
            return None
        inner = code[i + 1:j - 1]
        if inner.strip():
            try:
                p = _SubscriptParser(inner)
                inner = p.parse()
                n_rw += p.rewrites
            except ValueError:
                return None
        out.append(f"[{inner}]")
        i = j
    text = "".join(out)
    # helpers after the includes
    lines = text.split("\n")
    k = max((n for n, ln in enumerate(lines) if ln.startswith("#include")), default=-1)
    lines.insert(k + 1, _FLOOR_HELPERS)
    return "\n".join(lines), n_rw


def floor_subscript_variant(cp: Compiled) -> Compiled | None:
    r = floor_subscript_code(cp.code)
    if r is None or r[1] == 0:
        return None
    try:
        lib = compile_c(r[0])
    except CodegenFailure:
        return None
    return Compiled(cp.t_unit, r[0], lib, cp.fname, cp.params, cp.kernel)


# ---------------------------------------------------------------------------
# attribution experiment: some of loopy's passes key their memo tables by expression
# EQUALITY, and np.float32(1.0) == np.float64(1.0) == np.complex128(1.0) (same hash): two
# sub-expressions that differ only in the dtype of a constant get one answer.  Wrapping
# every typed inexact constant in a cast to its own type leaves the kernel's meaning
# unchanged and makes such sub-expressions unequal.

def equal_constants_of_different_dtype(t_unit: Any) -> bool:
    import pymbolic.primitives as p
    seen: dict[Any, set[str]] = {}

    def walk(e: Any) -> None:
        if isinstance(e, (np.floating, np.complexfloating)):
            seen.setdefault(complex(e), set()).add(e.dtype.name)
        elif isinstance(e, p.ExpressionNode):
            import dataclasses
            for f in dataclasses.fields(e):  # type: ignore[arg-type]
                v = getattr(e, f.name)
                for c in (v if isinstance(v, tuple) else (v,)):
                    walk(c)
    knl = t_unit.default_entrypoint
    for insn in knl.instructions:
        walk(getattr(insn, "expression", None))
    for r in knl.substitutions.values():
        walk(r.expression)
    return any(len(v) > 1 for v in seen.values())


def typed_constants_variant(t_unit: Any) -> Any:
    """The translation unit with every np.floating / np.complexfloating constant c outside
    subscripts replaced by TypeCast(c.dtype, c); None if it holds no such pair."""
    import loopy as lp
    from loopy.symbolic import IdentityMapper
    if not equal_constants_of_different_dtype(t_unit):
        return None

    class M(IdentityMapper):  # type: ignore[misc]
        def map_constant(self, expr: Any, *a: Any) -> Any:
            if isinstance(expr, (np.floating, np.complexfloating)):
                return lp.TypeCast(expr.dtype, expr)
            return expr

        def map_subscript(self, expr: Any, *a: Any) -> Any:
            return expr          # index arithmetic stays untouched

        def map_type_cast(self, expr: Any, *a: Any) -> Any:
            if isinstance(expr.child, (np.floating, np.complexfloating)):
                return expr
            return super().map_type_cast(expr, *a)
    m = M()
    knl = t_unit.default_entrypoint
    insns = [i.with_transformed_expressions(m) for i in knl.instructions]
    substs = {n: r.copy(expression=m(r.expression)) for n, r in knl.substitutions.items()}
    return t_unit.with_kernel(knl.copy(instructions=insns, substitutions=substs))


def subst_rules_merged_across_dtype(pre_t_unit: Any, post_t_unit: Any) -> bool:
    """pytato's kernel holds two substitution rules whose bodies are Python-equal but differ
    in the dtype of a constant (typed repr differs: `0 + np.float32(1.0)` vs
    `0 + np.complex128(1+0j)`), and the kernel after loopy's first passes holds fewer rules:
    loopy merged them (it compares rule bodies with ==)."""
    pre = pre_t_unit.default_entrypoint.substitutions
    post = post_t_unit.default_entrypoint.substitutions
    if len(post) >= len(pre):
        return False
    rules = list(pre.values())
    for i, r1 in enumerate(rules):
        for r2 in rules[i + 1:]:
            if r1.arguments == r2.arguments and r1.expression == r2.expression \
                    and repr(r1.expression) != repr(r2.expression):
                return True
    return False
