"""Runs multi-rank programs (vf.gen.distgen) on the simulated MPI (vf.simmpi):
partitioning phase (find / verify / number tags, collective) and execution phase
(execute_distributed_partition with monitored context and logged part programs)."""
from __future__ import annotations

from typing import Any

import numpy as np

from vf import simmpi
from vf.gen import distgen


class LoggedContext(dict):  # type: ignore[type-arg]
    """The executor's ``context``: logs set / get / del with a logical time."""
    def __init__(self, base: dict[str, Any], log: list[tuple[str, str]]):
        super().__init__(base)
        self._log = log
        for k in base:
            log.append(("set", k))

    def __getitem__(self, k: str) -> Any:
        if not dict.__contains__(self, k):
            self._log.append(("get-missing", k))
        else:
            self._log.append(("get", k))
        return dict.__getitem__(self, k)

    def __setitem__(self, k: str, v: Any) -> None:
        self._log.append(("set", k))
        dict.__setitem__(self, k, v)

    def __delitem__(self, k: str) -> None:
        self._log.append(("del", k) if dict.__contains__(self, k) else ("del-missing", k))
        dict.__delitem__(self, k)

    def update(self, other: Any = (), **kw: Any) -> None:  # type: ignore[override]
        for k, v in dict(other, **kw).items():
            self[k] = v


class InputArgs(dict):  # type: ignore[type-arg]
    """``input_args`` whose ``.copy()`` -- the executor's context -- is monitored."""
    def __init__(self, base: dict[str, Any], log: list[tuple[str, str]]):
        super().__init__(base)
        self._log = log

    def copy(self) -> Any:  # type: ignore[override]
        return LoggedContext(dict(self), self._log)


def part_programs(partition: Any, log: list[Any], mode: str = "refeval") -> dict[Any, Any]:
    """pid -> callable(queue, allocator=None, **inputs) -> (None, {name: ndarray})."""
    import pytato as pt
    from vf.oracle import refeval
    progs: dict[Any, Any] = {}
    for pid, part in partition.parts.items():
        outs = {name: partition.name_to_output[name] for name in part.output_names}
        if mode == "refeval":
            def prg(queue: Any, allocator: Any = None, *, _outs: Any = outs, _pid: Any = pid,
                    **inputs: Any) -> Any:
                log.append(("part", _pid, sorted(inputs)))
                ev = refeval.RefEval({k: np.asarray(v) for k, v in inputs.items()})
                return None, {k: np.array(ev(v), copy=True) for k, v in _outs.items()}
        else:
            from vf.exec import ctarget
            bp = ctarget.generate(pt.transform.deduplicate(pt.make_dict_of_named_arrays(outs)))
            cp = ctarget.compile_program(bp)

            def prg(queue: Any, allocator: Any = None, *, _bp: Any = bp, _cp: Any = cp,
                    _pid: Any = pid, **inputs: Any) -> Any:
                log.append(("part", _pid, sorted(inputs)))
                rr = ctarget.run(_cp, _bp, {k: np.asarray(v) for k, v in inputs.items()})
                return None, dict(rr.outputs)
        progs[pid] = prg
    return progs


class PartitionRun:
    def __init__(self) -> None:
        self.world: Any = None
        self.partitions: dict[int, Any] = {}       # rank -> numbered partition
        self.raw_partitions: dict[int, Any] = {}   # rank -> partition before numbering
        self.errors: dict[int, BaseException] = {}
        self.stage: dict[int, str] = {}
        self.aborted: set[int] = set()
        self.next_tag: dict[int, int] = {}
        self.dags: dict[int, Any] = {}


def partition_all(desc: dict[str, Any], chooser: Any = None, *, verify: bool = True,
                  number: bool = True, build: Any = None) -> PartitionRun:
    simmpi.install()
    from pytato.distributed.partition import find_distributed_partition
    from pytato.distributed.tags import number_distributed_tags
    from pytato.distributed.verify import verify_distributed_partition
    R = desc["nranks"]
    pr = PartitionRun()
    world = simmpi.World(R, chooser or simmpi.ReplayChooser([]))
    pr.world = world
    build = build or distgen.build_rank

    def fn(comm: Any) -> Any:
        r = comm.rank
        pr.stage[r] = "build"
        dag = build(desc, r)
        pr.dags[r] = dag
        pr.stage[r] = "find"
        p = find_distributed_partition(comm, dag)
        pr.raw_partitions[r] = p
        if verify:
            pr.stage[r] = "verify"
            verify_distributed_partition(comm, p)
        if number:
            pr.stage[r] = "number"
            p, nt = number_distributed_tags(comm, p, base_tag=42)
            pr.next_tag[r] = nt
        pr.stage[r] = "done"
        pr.partitions[r] = p
        return p
    world.run([fn] * R)
    pr.errors = dict(world.errors)
    pr.aborted = set(world.aborted_ranks)
    return pr


class ExecRun:
    def __init__(self) -> None:
        self.world: Any = None
        self.outputs: dict[int, dict[str, np.ndarray]] = {}
        self.errors: dict[int, BaseException] = {}
        self.ctx_log: dict[int, list[tuple[str, str]]] = {}
        self.part_log: dict[int, list[Any]] = {}
        self.deadlock = False
        self.step_limit = False
        self.aborted: set[int] = set()
        self.args_modified: dict[int, Any] = {}


def execute_all(desc: dict[str, Any], partitions: dict[int, Any], chooser: Any,
                mode: str = "refeval", progs: dict[int, Any] | None = None,
                shared_args: dict[int, Any] | None = None) -> ExecRun:
    """*shared_args*: rank -> dict kept by the CALLER across executions (a time-stepping
    code reuses its input dictionary); filled on first use, must come back unchanged."""
    simmpi.install()
    from pytato.distributed.execute import execute_distributed_partition
    R = desc["nranks"]
    er = ExecRun()
    nparts = sum(len(p.parts) for p in partitions.values())
    nmsgs = sum(len(pt_.name_to_recv_node) for p in partitions.values()
                for pt_ in p.parts.values())
    world = simmpi.World(R, chooser, step_limit=50 * (nparts + nmsgs + 4))
    er.world = world
    iv = distgen.input_values(desc)

    def fn(comm: Any) -> Any:
        r = comm.rank
        er.ctx_log[r] = []
        er.part_log[r] = []
        p = partitions[r]
        if progs is not None:
            # pre-built programs, re-bound to this run's log
            pp = {pid: (lambda queue, allocator=None, _f=f, **kw: _f(
                queue, allocator, _log=er.part_log[r], **kw)) for pid, f in progs[r].items()}
        else:
            pp = part_programs(p, er.part_log[r], mode)
        names = {n for part in p.parts.values() for n in part.user_input_names}
        if shared_args is not None:
            if r not in shared_args:
                shared_args[r] = InputArgs({k: np.array(v, copy=True) for k, v in iv.items()
                                            if k in names}, er.ctx_log[r])
            args = shared_args[r]
            args._log = er.ctx_log[r]
            before = {k: np.array(v, copy=True) for k, v in dict.items(args)}
        else:
            args = InputArgs({k: np.array(v, copy=True) for k, v in iv.items() if k in names},
                             er.ctx_log[r])
            before = None
        res = execute_distributed_partition(p, pp, None, comm, input_args=args)
        er.outputs[r] = {k: np.asarray(v) for k, v in res.items()}
        if before is not None:
            now = dict(dict.items(args))
            if set(now) != set(before) or any(
                    not np.array_equal(np.asarray(now[k]), before[k]) for k in before):
                er.args_modified[r] = (sorted(set(before) - set(now)),
                                       sorted(set(now) - set(before)))
        return res
    world.run([fn] * R)
    er.errors = dict(world.errors)
    er.deadlock = world.deadlock
    er.aborted = set(world.aborted_ranks)
    er.step_limit = any(k == "step-limit" for _s, _r, k, _d in world.events)
    return er


def prebuilt_programs(partitions: dict[int, Any]) -> dict[int, dict[Any, Any]]:
    """Reference-evaluator part programs built once per partition (schedule exploration
    re-runs the same partition thousands of times)."""
    from vf.oracle import refeval
    out: dict[int, dict[Any, Any]] = {}
    for r, p in partitions.items():
        d = {}
        for pid, part in p.parts.items():
            outs = {name: p.name_to_output[name] for name in part.output_names}

            def f(queue: Any, allocator: Any = None, *, _log: list[Any], _outs: Any = outs,
                  _pid: Any = pid, **inputs: Any) -> Any:
                _log.append(("part", _pid, sorted(inputs)))
                ev = refeval.RefEval({k: np.asarray(v) for k, v in inputs.items()})
                return None, {k: np.array(ev(v), copy=True) for k, v in _outs.items()}
            d[pid] = f
        out[r] = d
    return out
