"""Interpreter for the loopy kernels pytato produces (the *unprocessed*
``BoundProgram.program``, i.e. before loopy's own passes).

Instructions are executed in an order compatible with ``depends_on`` only --
deliberately the *latest-added ready instruction first*, so that a missing
dependency edge shows up as a read-before-write event.  Every instruction is
evaluated over the box of its ``within_inames`` with the masked vectorised
engine of :mod:`vf.oracle.ilinterp`; each in-mask subscript is checked per axis
(access events), reads of never-written temporaries/outputs are recorded.
"""
from __future__ import annotations

from typing import Any

import numpy as np
import pymbolic.primitives as prim

from vf.oracle.ilinterp import ILEval, UnsupportedExpr


class Unsupported(Exception):
    pass


_RED = {"SumReductionOperation": "SumReductionOperation",
        "ProductReductionOperation": "ProductReductionOperation",
        "MaxReductionOperation": "MaxReductionOperation",
        "MinReductionOperation": "MinReductionOperation",
        "AllReductionOperation": "AllReductionOperation",
        "AnyReductionOperation": "AnyReductionOperation"}


class _Eval(ILEval):
    def __init__(self, interp: "KernelInterp", axes: list[str], extents: list[int]):
        super().__init__({}, tuple(extents))
        self.it = interp
        self.axes = list(axes)          # names of grid axes (outer inames, then reductions)
        self.subst_depth = 0
        self.anyall_keep_arg_dtype = True

    # -- variables: value args, scalar temporaries (per-point), substitution args
    def lookup_var(self, name: str, env: dict[str, np.ndarray], mask: np.ndarray) -> Any:
        it = self.it
        if name in it.scalars:
            return it.scalars[name]
        if name in it.point_scalars:
            val, wax, written = it.point_scalars[name]
            return self._align(val, wax, name)
        if name in it.arrays and it.arrays[name].shape == ():
            self.note_read(name, [], mask)
            return it.arrays[name][()]
        if name in ("HUGE_VAL", "INFINITY"):
            return np.inf
        if name in ("INT_MIN", "INT_MAX", "LONG_MIN", "LONG_MAX"):
            ii = np.iinfo(np.int32 if name.startswith("INT") else np.int64)
            return ii.min if name.endswith("MIN") else ii.max
        raise UnsupportedExpr(f"unknown variable {name!r} in kernel expression")

    def _align(self, val: np.ndarray, wax: tuple[str, ...], name: str) -> np.ndarray:
        """Array over writer axes *wax* -> broadcastable over the current grid."""
        if not wax:
            return val
        cur = self.axes
        if any(a not in cur for a in wax):
            raise UnsupportedExpr(f"scalar temporary {name!r} read outside the loops "
                                  f"it was written under ({wax} vs {cur})")
        d = len(self.grid)
        shp = [1] * d
        perm = sorted(range(len(wax)), key=lambda i: cur.index(wax[i]))
        v = np.transpose(val, perm)
        for i in perm:
            shp[cur.index(wax[i])] = val.shape[i]
        return v.reshape(shp)

    def lookup_array(self, name: str) -> np.ndarray:
        if name in self.it.arrays:
            return self.it.arrays[name]
        raise UnsupportedExpr(f"subscript of unknown array {name!r}")

    def note_read(self, name: str, ixs: list[np.ndarray], mask: np.ndarray) -> None:
        w = self.it.written.get(name)
        if w is None:
            return
        full = tuple(self.grid)
        m = np.broadcast_to(mask, full)
        if not m.any():
            return
        if ixs:
            if w.size == 0:
                return
            got = w[tuple(np.broadcast_to(i, full) for i in ixs)]
        else:
            got = np.broadcast_to(w[()], full)
        bad = m & ~got
        if bad.any():
            self.it.rbw.append({"array": name, "insn": self.it.cur_insn,
                                "n_points": int(bad.sum())})

    def ev_other(self, e: Any, env: dict[str, np.ndarray], mask: np.ndarray) -> Any:
        tn = type(e).__name__
        if tn == "TypeCast":          # loopy.symbolic.TypeCast
            v = self.ev(e.child, env, mask)
            return np.asarray(v).astype(e.type.numpy_dtype)
        if tn == "Reduction":
            opname = type(e.operation).__name__
            if opname not in _RED:
                raise UnsupportedExpr(f"loopy reduction {opname}")
            names = list(e.inames)
            bounds = {n: self.it.iname_bounds(n) for n in names}
            saved = list(self.axes)
            self.axes = self.axes + names
            try:
                return self._reduce(opname, names, bounds, e.expr, env, mask)
            finally:
                self.axes = saved
        raise UnsupportedExpr(f"kernel expression node {tn}")

    def ev(self, e: Any, env: dict[str, np.ndarray], mask: np.ndarray) -> Any:
        if isinstance(e, prim.Call) and isinstance(e.function, prim.Variable) and \
                e.function.name in self.it.knl.substitutions:
            rule = self.it.knl.substitutions[e.function.name]
            if len(rule.arguments) != len(e.parameters):
                raise UnsupportedExpr("substitution rule arity mismatch")
            args = [self.ev(p, env, mask) for p in e.parameters]
            env2 = dict(env)
            d = len(self.grid)
            for an, av in zip(rule.arguments, args):
                av = np.asarray(av)
                if av.ndim not in (0, d):
                    raise UnsupportedExpr("substitution argument rank")
                env2[an] = av.astype(np.int64) if av.dtype.kind in "iub" else av
            return self.ev(rule.expression, env2, mask)
        return super().ev(e, env, mask)


class KernelInterp:
    def __init__(self, t_unit: Any, inputs: dict[str, Any]):
        import loopy as lp
        self.lp = lp
        self.t_unit = t_unit
        self.knl = t_unit.default_entrypoint
        self.scalars: dict[str, Any] = {}
        self.arrays: dict[str, np.ndarray] = {}
        self.written: dict[str, np.ndarray] = {}
        self.point_scalars: dict[str, tuple[np.ndarray, tuple[str, ...], np.ndarray]] = {}
        self.oob: list[dict[str, Any]] = []
        self.rbw: list[dict[str, Any]] = []
        self.n_subscripts = 0
        self.n_masked_subscripts = 0
        self.n_nonidentity_subscripts = 0
        self.cur_insn = ""
        self._bounds: dict[str, tuple[Any, Any]] = {}
        self.order: list[str] = []
        knl = self.knl
        for name, arg in knl.arg_dict.items():
            if isinstance(arg, lp.ValueArg):
                if name in inputs:
                    self.scalars[name] = np.dtype(arg.dtype.numpy_dtype).type(inputs[name])
                elif name.endswith("_offset"):
                    self.scalars[name] = 0
                else:
                    raise Unsupported(f"no value for scalar argument {name!r}")
        for name, arg in knl.arg_dict.items():
            if isinstance(arg, lp.ValueArg):
                continue
            shape = self._shape(arg.shape)
            dt = np.dtype(arg.dtype.numpy_dtype)
            if arg.is_input and not arg.is_output:
                if name not in inputs:
                    raise Unsupported(f"no value for input array {name!r}")
                v = np.asarray(inputs[name])
                if v.shape != shape or v.dtype != dt:
                    raise Unsupported(f"input {name!r}: declared {dt}{shape}, "
                                      f"given {v.dtype}{v.shape}")
                self.arrays[name] = v
            else:
                self.arrays[name] = np.zeros(shape, dt)
                self.written[name] = np.zeros(shape, bool)
        for name, tv in knl.temporary_variables.items():
            dt = np.dtype(tv.dtype.numpy_dtype) if tv.dtype is not None else None
            shape = self._shape(tv.shape)
            if shape == () and tv.address_space == lp.AddressSpace.PRIVATE:
                continue   # per-point scalar: created when written
            if dt is None:
                raise Unsupported(f"temporary {name!r} without dtype")
            self.arrays[name] = np.zeros(shape, dt)
            self.written[name] = np.zeros(shape, bool)

    def _shape(self, shape: Any) -> tuple[int, ...]:
        from pymbolic.mapper.evaluator import EvaluationMapper
        out = []
        for s in shape:
            if isinstance(s, (int, np.integer)):
                out.append(int(s))
            else:
                out.append(int(EvaluationMapper({k: int(v) for k, v in self.scalars.items()})(s)))
        return tuple(out)

    def iname_bounds(self, iname: str) -> tuple[Any, Any]:
        if iname not in self._bounds:
            from loopy.symbolic import pw_aff_to_expr
            try:
                b = self.knl.get_iname_bounds(iname, constants_only=False)
                lb = pw_aff_to_expr(b.lower_bound_pw_aff)
                ub = pw_aff_to_expr(b.upper_bound_pw_aff) + 1
            except Exception as e:  # noqa: BLE001
                if "is empty" in str(e):
                    lb, ub = 0, 0          # statically empty domain: zero trips
                elif isinstance(e, KeyError):
                    raise Unsupported(f"iname {iname!r} has no domain") from e
                else:
                    raise
            self._bounds[iname] = (lb, ub)
        return self._bounds[iname]

    def _ready_order(self) -> list[Any]:
        insns = list(self.knl.instructions)
        pos = {i.id: k for k, i in enumerate(insns)}
        deps = {i.id: set(d for d in i.depends_on if d in pos) for i in insns}
        done: set[str] = set()
        order = []
        remaining = {i.id: i for i in insns}
        while remaining:
            ready = [i for i in remaining.values() if deps[i.id] <= done]
            if not ready:
                raise Unsupported("cyclic instruction dependencies")
            # adversarial: latest-added ready instruction first
            nxt = max(ready, key=lambda i: pos[i.id])
            order.append(nxt)
            done.add(nxt.id)
            del remaining[nxt.id]
        return order

    def run(self) -> None:
        lp = self.lp
        for insn in self._ready_order():
            self.cur_insn = insn.id
            self.order.append(insn.id)
            if isinstance(insn, lp.NoOpInstruction):
                continue
            if not isinstance(insn, lp.Assignment):
                raise Unsupported(f"instruction type {type(insn).__name__}")
            if insn.predicates:
                raise Unsupported("predicated instruction")
            axes = sorted(insn.within_inames)
            # extents of outer inames: must be parameter-only (not per-point)
            lbs, extents = [], []
            for a in axes:
                lb_e, ub_e = self.iname_bounds(a)
                ev0 = _Eval(self, [], [])
                ev0.grid = []
                lb = int(np.asarray(ev0.ev(lb_e, {}, np.ones((), bool))))
                ub = int(np.asarray(ev0.ev(ub_e, {}, np.ones((), bool))))
                lbs.append(lb)
                extents.append(max(ub - lb, 0))
            ev = _Eval(self, axes, extents)
            n = len(axes)
            env: dict[str, np.ndarray] = {}
            for k, (a, lb, ext) in enumerate(zip(axes, lbs, extents)):
                shp = [1] * n
                shp[k] = ext
                env[a] = (np.arange(ext, dtype=np.int64) + lb).reshape(shp)
            ev.grid = list(extents)
            mask = np.ones((1,) * n, dtype=bool)
            with np.errstate(all="ignore"):
                val = ev.ev(insn.expression, env, mask)
                self._store(insn, ev, env, mask, val, axes, extents)
            for o in ev.oob:
                self.oob.append({"insn": insn.id, **o})
            self.n_subscripts += ev.n_subscripts
            self.n_masked_subscripts += ev.n_masked_subscripts
            self.n_nonidentity_subscripts += ev.n_nonidentity

    def _store(self, insn: Any, ev: _Eval, env: dict[str, np.ndarray], mask: np.ndarray,
               val: Any, axes: list[str], extents: list[int]) -> None:
        asg = insn.assignee
        full = tuple(extents)
        if isinstance(asg, prim.Variable):
            name = asg.name
            if name in self.arrays:          # 0-d array
                if self.arrays[name].shape != ():
                    raise Unsupported(f"unsubscripted store to array {name!r}")
                v = np.broadcast_to(np.asarray(val), full)
                if v.size:
                    self.arrays[name][()] = v.reshape(-1)[-1].astype(self.arrays[name].dtype)
                    self.written[name][()] = True
                return
            tv = self.knl.temporary_variables.get(name)
            if tv is None:
                raise Unsupported(f"store to unknown variable {name!r}")
            dt = np.dtype(tv.dtype.numpy_dtype) if tv.dtype is not None else np.asarray(val).dtype
            v = np.broadcast_to(np.asarray(val), full).astype(dt)
            self.point_scalars[name] = (v, tuple(axes), np.ones(full, bool))
            return
        if isinstance(asg, prim.Subscript) and isinstance(asg.aggregate, prim.Variable):
            name = asg.aggregate.name
            if name not in self.arrays:
                raise Unsupported(f"store to unknown array {name!r}")
            arr = self.arrays[name]
            ixs = []
            for ax, ie in enumerate(asg.index_tuple):
                iv = np.asarray(ev.ev(ie, env, mask)).astype(np.int64)
                ext = arr.shape[ax]
                bad = (iv < 0) | (iv >= ext)
                if bad.any() and int(np.prod(full, dtype=np.int64)) > 0:
                    ivb = np.broadcast_to(iv, full)[np.broadcast_to(bad, full)]
                    self.oob.append({"insn": insn.id, "array": name, "axis": ax,
                                     "extent": int(ext), "min": int(ivb.min()),
                                     "max": int(ivb.max()), "kind": "write",
                                     "data_dependent": False, "index_expr": str(ie)})
                    return
                ixs.append(np.broadcast_to(iv, full))
            if int(np.prod(full, dtype=np.int64)) == 0:
                return
            v = np.broadcast_to(np.asarray(val), full).astype(arr.dtype)
            arr[tuple(ixs)] = v
            self.written[name][tuple(ixs)] = True
            return
        raise Unsupported(f"assignee {asg!r}")

    def outputs(self) -> dict[str, np.ndarray]:
        lp = self.lp
        return {n: self.arrays[n] for n, a in self.knl.arg_dict.items()
                if isinstance(a, lp.ArrayArg) and a.is_output}

    def unwritten_outputs(self) -> list[str]:
        return [n for n in self.outputs() if self.written[n].size and not self.written[n].all()]


def interpret(bp: Any, inputs: dict[str, Any]) -> KernelInterp:
    allin = dict(bp.bound_arguments)
    allin.update(inputs)
    it = KernelInterp(bp.program, allin)
    it.run()
    return it
