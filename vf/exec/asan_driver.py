"""AddressSanitizer / UndefinedBehaviorSanitizer driver for generated kernels.

The same C source the C runner executes, plus a generated ``main()`` that mallocs
every array with its *exact* byte size, loads inputs from a blob, calls the kernel
and dumps outputs; built with clang -fsanitize=address,undefined and run as a
subprocess.  A sanitizer report is the event.
"""
from __future__ import annotations

import os
import re
import subprocess
from typing import Any

import numpy as np

from vf.exec import ctarget

_CT = {"int8": "int8_t", "int16": "int16_t", "int32": "int32_t", "int64": "int64_t",
       "uint8": "uint8_t", "uint16": "uint16_t", "uint32": "uint32_t", "uint64": "uint64_t",
       "float32": "float", "float64": "double", "bool": "bool"}


class AsanResult:
    def __init__(self) -> None:
        self.report: str | None = None
        self.kind: str | None = None
        self.rc = 0
        self.outputs: dict[str, np.ndarray] = {}
        self.build_failed: str | None = None
        self.timeout = False


def run(cp: ctarget.Compiled, bp: Any, inputs: dict[str, Any], tag: str = "k",
        timeout: float = 60.0) -> AsanResult:
    import loopy as lp
    knl = cp.kernel
    allin: dict[str, Any] = dict(bp.bound_arguments)
    allin.update(inputs)
    scalars = {k: int(v) for k, v in allin.items()
               if np.ndim(v) == 0 and np.asarray(v).dtype.kind in "iu" and k in knl.arg_dict
               and isinstance(knl.arg_dict[k], lp.ValueArg)}
    offset_args = {a.offset for a in knl.args
                   if isinstance(a, lp.ArrayArg) and isinstance(getattr(a, "offset", None), str)}
    decls, call, loads, dumps = [], [], [], []
    blob = bytearray()
    out_meta: list[tuple[str, tuple[int, ...], np.dtype[Any]]] = []
    for name, is_ptr, ctype in cp.params:
        if name in knl.arg_dict and isinstance(knl.arg_dict[name], lp.ValueArg):
            dt = np.dtype(knl.arg_dict[name].dtype.numpy_dtype)
            val = allin.get(name, 0 if (name in offset_args or name.endswith("_offset"))
                            else None)
            if val is None:
                raise ctarget.KernelContractError(f"no value for {name}")
            call.append(f"({_CT[dt.name]})({val!r})" if dt.kind in "iu"
                        else f"({_CT[dt.name]})({float(val)!r})")
            continue
        if name in knl.arg_dict:
            arg = knl.arg_dict[name]
            dt = np.dtype(arg.dtype.numpy_dtype)
            shape = ctarget._eval_shape(arg.shape, scalars)
            is_in = arg.is_input and not arg.is_output
        else:
            tv = knl.temporary_variables[name]
            dt = np.dtype(tv.dtype.numpy_dtype)
            shape = ctarget._eval_shape(tv.shape, scalars)
            is_in = False
            arg = None
        nbytes = int(np.prod(shape, dtype=np.int64)) * dt.itemsize
        decls.append(f"  char *p_{name} = (char*) malloc({nbytes});")
        if is_in:
            src = np.asarray(allin[name])
            src = src.copy(order="C") if not src.flags.c_contiguous else src
            if src.dtype != dt or src.shape != shape:
                raise ctarget.KernelContractError(f"argument {name}: {src.dtype}{src.shape} vs "
                                                  f"declared {dt}{shape}")
            loads.append(f"  if ({nbytes}) {{ if (fread(p_{name}, 1, {nbytes}, f) != {nbytes}) "
                         "return 3; }")
            blob += src.tobytes()
        else:
            loads.append(f"  if ({nbytes}) memset(p_{name}, 0xFF, {nbytes});")
            if arg is not None and arg.is_output:
                dumps.append(f"  if ({nbytes}) fwrite(p_{name}, 1, {nbytes}, g);")
                out_meta.append((name, shape, dt))
        call.append(f"(void*) p_{name}")
    main = ("\n#include <stdio.h>\n#include <stdlib.h>\n#include <string.h>\n"
            "int main(int argc, char **argv) {\n"
            "  FILE *f = fopen(argv[1], \"rb\"); if (!f) return 2;\n"
            + "\n".join(decls) + "\n" + "\n".join(loads) + "\n  fclose(f);\n"
            f"  {cp.fname}({', '.join(call)});\n"
            "  FILE *g = fopen(argv[2], \"wb\"); if (!g) return 2;\n"
            + "\n".join(dumps) + "\n  fclose(g);\n  return 0;\n}\n")
    src = ctarget._INCLUDES + ctarget._missing_helpers(cp.code) + cp.code + main
    wd = ctarget.workdir()
    base = os.path.join(wd, f"asan_{tag}_{os.getpid()}")
    with open(base + ".c", "w") as fh:
        fh.write(src)
    with open(base + ".in", "wb") as fh:
        fh.write(bytes(blob))
    res = AsanResult()
    # signed-integer-overflow / shift / float-cast checks observe the VALUES a program
    # computes (an int32 product that wraps in NumPy too), not memory safety: excluded.
    # An overflowing index computation still shows up as an out-of-bounds access.
    r = subprocess.run(["clang", "-fsanitize=address,undefined",
                        "-fno-sanitize=signed-integer-overflow,shift,float-cast-overflow,"
                        "float-divide-by-zero,integer-divide-by-zero",
                        "-fno-sanitize-recover=all",
                        "-O1", "-g", "-w", "-ffp-contract=off", "-o", base + ".exe",
                        base + ".c", "-lm"], capture_output=True, text=True)
    if r.returncode != 0:
        res.build_failed = r.stderr[-800:]
        _cleanup(base)
        return res
    env = dict(os.environ, ASAN_OPTIONS="detect_leaks=0:halt_on_error=1:redzone=512:"
               "abort_on_error=0:allocator_may_return_null=1",
               UBSAN_OPTIONS="halt_on_error=1:print_stacktrace=0")
    try:
        p = subprocess.run([base + ".exe", base + ".in", base + ".out"], capture_output=True,
                           text=True, timeout=timeout, env=env)
        res.rc = p.returncode
        err = p.stderr
        m = re.search(r"ERROR: AddressSanitizer: ([\w-]+)", err)
        if m:
            res.kind = "asan:" + m.group(1)
            res.report = err[:1500]
        else:
            m = re.search(r"runtime error: ([^\n]{0,120})", err)
            if m:
                res.kind = "ubsan:" + re.sub(r"\d+", "N", m.group(1))[:60]
                res.report = err[:1500]
            elif p.returncode != 0:
                res.kind = f"exit:{p.returncode}"
                res.report = err[-800:]
        if res.kind is None and os.path.exists(base + ".out"):
            data = open(base + ".out", "rb").read()
            off = 0
            for name, shape, dt in out_meta:
                nb = int(np.prod(shape, dtype=np.int64)) * dt.itemsize
                res.outputs[name] = np.frombuffer(data[off:off + nb], dtype=dt).reshape(shape)
                off += nb
    except subprocess.TimeoutExpired:
        res.timeout = True
    _cleanup(base)
    return res


def _cleanup(base: str) -> None:
    for ext in (".c", ".in", ".out", ".exe"):
        try:
            os.unlink(base + ext)
        except OSError:
            pass
