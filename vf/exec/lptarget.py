"""Harness-side loopy/pytato targets (module level so that they pickle).
Import only after vf.common.repo_setup()."""
from __future__ import annotations

from typing import Any

import loopy as lp
import numpy as np
from loopy.target.c import CASTBuilder
from loopy.types import NumpyType
from pytato.target import BoundProgram
from pytato.target.loopy import LoopyTarget


def _mangler(kernel: Any, name: str) -> Any:
    if name in ("HUGE_VAL", "INFINITY", "NAN"):
        return NumpyType(np.dtype(np.float64)), name
    if name in ("INT_MIN", "INT_MAX"):
        return NumpyType(np.dtype(np.int32)), name
    if name in ("LONG_MIN", "LONG_MAX"):
        return NumpyType(np.dtype(np.int64)), name
    return None


class VCASTBuilder(CASTBuilder):  # type: ignore[misc]
    def symbol_manglers(self) -> Any:
        return [*super().symbol_manglers(), _mangler]


class VCTarget(lp.CTarget):  # type: ignore[misc]
    def get_device_ast_builder(self) -> Any:
        return VCASTBuilder(self)


class VLoopyTarget(LoopyTarget):  # type: ignore[misc]
    def get_loopy_target(self) -> Any:
        return VCTarget()

    def bind_program(self, program: Any, bound_arguments: Any) -> Any:
        return BoundProgram(program=program, bound_arguments=bound_arguments,
                            target=self)
