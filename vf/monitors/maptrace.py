"""Mapper event tracer: wraps, in place, every ``map_*`` / ``handle_unsupported_array``
attribute of every class reachable through a ``pytato.*`` module namespace that
derives from ``Mapper`` (plus ``EqualityComparer``).  Discovery is by namespace, not
by ``__module__``, so the classes rewritten by pymbolic's ``optimize_mapper`` are
included.  ``super()`` chains for the same (mapper, node) are collapsed by a
re-entrancy set; a logical event budget turns exponential re-traversal into a prompt
exception instead of a hang."""
from __future__ import annotations

import importlib
import pkgutil
from typing import Any


class BudgetExceeded(Exception):
    pass


class Tracer:
    def __init__(self) -> None:
        self.active = False
        self.events: list[tuple[int, str, str, int, Any]] = []
        self.stack: set[tuple[int, int]] = set()
        self.keep: list[Any] = []
        self.mappers: dict[int, Any] = {}
        self.budget = 10 ** 9
        self.installed = False
        self.n_wrapped = 0
        self.classes: list[type] = []

    def start(self, budget: int) -> None:
        self.events = []
        self.stack = set()
        self.keep = []
        self.mappers = {}
        self.budget = budget
        self.active = True

    def stop(self) -> list[tuple[int, str, str, int, Any]]:
        self.active = False
        return self.events


TRACER = Tracer()


def _key_of(args: tuple[Any, ...], kwargs: dict[str, Any]) -> Any:
    if not args and not kwargs:
        return None
    try:
        return (tuple(id(a) if not isinstance(a, (int, str, bool, type(None), tuple, frozenset))
                      else a for a in args),
                tuple(sorted((k, id(v)) for k, v in kwargs.items())))
    except Exception:  # noqa: BLE001
        return "?"


def _wrap(cls: type, name: str, orig: Any) -> Any:
    def wrapper(self: Any, expr: Any, *args: Any, **kwargs: Any) -> Any:
        tr = TRACER
        if not tr.active:
            return orig(self, expr, *args, **kwargs)
        key = (id(self), id(expr))
        if key in tr.stack:
            return orig(self, expr, *args, **kwargs)
        tr.stack.add(key)
        tr.keep.append(expr)
        if id(self) not in tr.mappers:
            tr.mappers[id(self)] = self
        tr.events.append((id(self), type(self).__name__, name, id(expr), _key_of(args, kwargs)))
        if len(tr.events) > tr.budget:
            tr.active = False
            raise BudgetExceeded(f"{len(tr.events)} mapper events")
        try:
            return orig(self, expr, *args, **kwargs)
        finally:
            tr.stack.discard(key)
    wrapper.__name__ = getattr(orig, "__name__", name)
    wrapper.__wrapped__ = orig       # type: ignore[attr-defined]
    wrapper._vf_traced = True        # type: ignore[attr-defined]
    return wrapper


def install() -> Tracer:
    tr = TRACER
    if tr.installed:
        return tr
    import pytato
    from pytato.equality import EqualityComparer
    from pytato.transform import Mapper
    mods = [pytato]
    for m in pkgutil.walk_packages(pytato.__path__, "pytato."):
        try:
            mods.append(importlib.import_module(m.name))
        except Exception:  # noqa: BLE001 -- optional dependencies (jax, mpi4py, ...)
            continue
    seen: set[int] = set()
    for mod in mods:
        for attr in list(vars(mod).values()):
            if isinstance(attr, type) and (issubclass(attr, Mapper)
                                           or issubclass(attr, EqualityComparer)):
                if id(attr) in seen:
                    continue
                seen.add(id(attr))
                tr.classes.append(attr)
    for cls in tr.classes:
        for name, val in list(vars(cls).items()):
            if (name.startswith("map_") or name == "handle_unsupported_array"
                    or name == "_map_index_base" or name == "_map_generic_array") \
                    and callable(val) and not getattr(val, "_vf_traced", False):
                if name in ("map_function_definition",):
                    continue
                try:
                    setattr(cls, name, _wrap(cls, name, val))
                    tr.n_wrapped += 1
                except Exception:  # noqa: BLE001
                    continue
    tr.installed = True
    return tr
