"""Masked, vectorised pointwise interpreter for pytato IndexLambda expressions.

Implements the *documented* meaning of an index lambda -- "evaluate ``expr`` for
every value of the input indices" -- sharing no code with pytato's mappers.

Every value is either a scalar or an ndarray with exactly ``depth`` axes
(output axes first, then one axis per open reduction variable).  ``If`` passes a
validity mask into each branch so that a subscript is only required to be in
bounds where it would actually be evaluated (short-circuit meaning); an in-mask
out-of-bounds subscript is recorded as an *access event* in ``self.oob``.
"""
from __future__ import annotations

import operator
from typing import Any

import numpy as np
import pymbolic.primitives as prim


class UnsupportedExpr(Exception):
    pass


_CMP = {"==": operator.eq, "!=": operator.ne, "<": operator.lt, "<=": operator.le,
        ">": operator.gt, ">=": operator.ge}


def _np_isnan(x: Any) -> Any:
    # C's isnan yields an int, and pytato declares the lambda int32: a reduction over it
    # counts (it is not a logical or)
    return np.isnan(x).astype(np.int32)


FUNCS: dict[str, Any] = {
    "abs": np.abs, "sqrt": np.sqrt, "sin": np.sin, "cos": np.cos, "tan": np.tan,
    "asin": np.arcsin, "acos": np.arccos, "atan": np.arctan, "atan2": np.arctan2,
    "sinh": np.sinh, "cosh": np.cosh, "tanh": np.tanh, "exp": np.exp,
    "log": np.log, "log10": np.log10, "isnan": _np_isnan, "real": np.real,
    "imag": np.imag, "conj": np.conj,
}


def _func_for(name: str) -> Any:
    if name == "pytato.zero":
        return lambda x: np.zeros_like(x)
    for pfx in ("pytato.c99.", ""):
        if name.startswith(pfx) and name[len(pfx):] in FUNCS:
            return FUNCS[name[len(pfx):]]
    raise UnsupportedExpr(f"unknown function {name!r}")


class ILEval:
    def __init__(self, bindings: dict[str, np.ndarray], out_shape: tuple[int, ...]):
        self.bindings = bindings
        self.out_shape = tuple(int(s) for s in out_shape)
        self.oob: list[dict[str, Any]] = []
        self.n_subscripts = 0
        self.n_masked_subscripts = 0
        self.n_data_dependent = 0
        self.n_nonidentity = 0

    # -- entry
    def run(self, expr: Any) -> np.ndarray:
        n = len(self.out_shape)
        env: dict[str, np.ndarray] = {}
        for i, s in enumerate(self.out_shape):
            shp = [1] * n
            shp[i] = s
            env[f"_{i}"] = np.arange(s, dtype=np.int64).reshape(shp)
        self.grid: list[int] = list(self.out_shape)
        mask = np.ones((1,) * n, dtype=bool)
        with np.errstate(all="ignore"):
            val = self.ev(expr, env, mask)
        val = np.asarray(val)
        return np.broadcast_to(val, self.out_shape)

    # -- helpers
    def _full(self, x: Any) -> np.ndarray:
        return np.broadcast_to(np.asarray(x), tuple(self.grid))

    def _reads_array(self, e: Any) -> bool:
        if isinstance(e, prim.Subscript):
            return True
        if isinstance(e, prim.Variable):
            return e.name in self.bindings
        if isinstance(e, prim.ExpressionNode):
            import dataclasses
            for f in dataclasses.fields(e):  # type: ignore[arg-type]
                v = getattr(e, f.name)
                if isinstance(v, tuple):
                    if any(self._reads_array(c) for c in v):
                        return True
                elif self._reads_array(v):
                    return True
        return False

    # -- recursive evaluation
    def ev(self, e: Any, env: dict[str, np.ndarray], mask: np.ndarray) -> Any:
        if isinstance(e, (bool, int, float, complex, np.generic)):
            return e
        if isinstance(e, prim.NaN):
            dt = e.data_type if e.data_type is not None else np.float64
            return dt(float("nan"))
        if isinstance(e, prim.Variable):
            if e.name in env:
                return env[e.name]
            return self.lookup_var(e.name, env, mask)
        if isinstance(e, prim.Subscript):
            return self._subscript(e, env, mask)
        if isinstance(e, prim.Sum):
            vals = [self.ev(c, env, mask) for c in e.children]
            r = vals[0]
            for v in vals[1:]:
                r = r + v
            return r
        if isinstance(e, prim.Product):
            vals = [self.ev(c, env, mask) for c in e.children]
            r = vals[0]
            for v in vals[1:]:
                r = r * v
            return r
        if isinstance(e, prim.Quotient):
            return np.true_divide(self.ev(e.numerator, env, mask),
                                  self.ev(e.denominator, env, mask))
        if isinstance(e, prim.FloorDiv):
            return np.floor_divide(self.ev(e.numerator, env, mask),
                                   self.ev(e.denominator, env, mask))
        if isinstance(e, prim.Remainder):
            return np.remainder(self.ev(e.numerator, env, mask),
                                self.ev(e.denominator, env, mask))
        if isinstance(e, prim.Power):
            return np.power(self.ev(e.base, env, mask), self.ev(e.exponent, env, mask))
        if isinstance(e, prim.Comparison):
            return _CMP[e.operator](self.ev(e.left, env, mask),
                                    self.ev(e.right, env, mask))
        if isinstance(e, prim.LogicalAnd):
            vals = [self.ev(c, env, mask) for c in e.children]
            r = np.asarray(vals[0]).astype(bool)
            for v in vals[1:]:
                r = np.logical_and(r, v)
            return r
        if isinstance(e, prim.LogicalOr):
            vals = [self.ev(c, env, mask) for c in e.children]
            r = np.asarray(vals[0]).astype(bool)
            for v in vals[1:]:
                r = np.logical_or(r, v)
            return r
        if isinstance(e, prim.LogicalNot):
            return np.logical_not(self.ev(e.child, env, mask))
        if isinstance(e, prim.BitwiseAnd):
            vals = [self.ev(c, env, mask) for c in e.children]
            r = vals[0]
            for v in vals[1:]:
                r = r & v
            return r
        if isinstance(e, prim.BitwiseOr):
            vals = [self.ev(c, env, mask) for c in e.children]
            r = vals[0]
            for v in vals[1:]:
                r = r | v
            return r
        if isinstance(e, prim.BitwiseXor):
            vals = [self.ev(c, env, mask) for c in e.children]
            r = vals[0]
            for v in vals[1:]:
                r = r ^ v
            return r
        if isinstance(e, prim.BitwiseNot):
            return ~self.ev(e.child, env, mask)
        if isinstance(e, prim.If):
            c = np.asarray(self.ev(e.condition, env, mask)).astype(bool)
            t = self.ev(e.then, env, mask & c)
            f = self.ev(e.else_, env, mask & ~c)
            return np.where(c, t, f)
        if isinstance(e, prim.Min):
            vals = [self.ev(c, env, mask) for c in e.children]
            r = vals[0]
            for v in vals[1:]:
                r = np.minimum(r, v)
            return r
        if isinstance(e, prim.Max):
            vals = [self.ev(c, env, mask) for c in e.children]
            r = vals[0]
            for v in vals[1:]:
                r = np.maximum(r, v)
            return r
        if isinstance(e, prim.Call):
            if not isinstance(e.function, prim.Variable):
                raise UnsupportedExpr("call of non-variable")
            fn = _func_for(e.function.name)
            args = [self.ev(p, env, mask) for p in e.parameters]
            return fn(*args)
        tn = type(e).__name__
        if tn == "TypeCast" and hasattr(e, "inner_expr"):
            v = self.ev(e.inner_expr, env, mask)
            return np.asarray(v).astype(e.dtype)
        if tn == "Reduce":
            return self._reduce(type(e.op).__name__, list(e.bounds.keys()),
                                dict(e.bounds), e.inner_expr, env, mask)
        return self.ev_other(e, env, mask)

    # -- hooks for subclasses (loopy kernel interpreter)
    def ev_other(self, e: Any, env: dict[str, np.ndarray], mask: np.ndarray) -> Any:
        raise UnsupportedExpr(f"expression node {type(e).__name__}")

    def lookup_var(self, name: str, env: dict[str, np.ndarray], mask: np.ndarray) -> Any:
        if name in self.bindings:
            a = self.bindings[name]
            if a.shape != ():
                raise UnsupportedExpr(
                    f"non-scalar binding {name!r} used without subscript")
            return a[()]
        raise UnsupportedExpr(f"unbound variable {name!r}")

    def lookup_array(self, name: str) -> np.ndarray:
        if name not in self.bindings:
            raise UnsupportedExpr(f"subscript of unbound {name!r}")
        return self.bindings[name]

    def note_read(self, name: str, ixs: list[np.ndarray], mask: np.ndarray) -> None:
        """Called for every gather (subclasses track read-before-write)."""

    def _subscript(self, e: prim.Subscript, env: dict[str, np.ndarray],
                   mask: np.ndarray) -> Any:
        if not isinstance(e.aggregate, prim.Variable):
            raise UnsupportedExpr("subscript of non-variable")
        name = e.aggregate.name
        a = self.lookup_array(name)
        idx = e.index if isinstance(e.index, tuple) else (e.index,)
        if len(idx) != a.ndim:
            self.oob.append({"array": name, "kind": "rank-mismatch",
                             "n_indices": len(idx), "ndim": a.ndim})
            raise UnsupportedExpr("subscript rank mismatch")
        self.n_subscripts += 1
        if not bool(np.all(mask)):
            self.n_masked_subscripts += 1
        ixs = []
        fullmask = None
        for ax, ie in enumerate(idx):
            if not isinstance(ie, prim.Variable):
                self.n_nonidentity += 1
            iv = self.ev(ie, env, mask)
            iva = np.asarray(iv)
            if iva.dtype.kind not in "iub":
                raise UnsupportedExpr(f"non-integer index dtype {iva.dtype}")
            iva = iva.astype(np.int64)
            ext = a.shape[ax]
            bad = (iva < 0) | (iva >= ext)
            if bad.any():
                if fullmask is None:
                    fullmask = self._full(mask)
                badm = np.broadcast_to(bad, fullmask.shape) & fullmask
                if badm.any():
                    ivb = np.broadcast_to(iva, fullmask.shape)[badm]
                    dd = self._reads_array(ie)
                    if dd:
                        self.n_data_dependent += 1
                    self.oob.append({"array": name, "axis": ax, "extent": int(ext),
                                     "min": int(ivb.min()), "max": int(ivb.max()),
                                     "data_dependent": dd,
                                     "index_expr": str(ie)})
                iva = np.clip(iva, 0, max(ext - 1, 0))
            ixs.append(iva)
        self.note_read(name, ixs, mask)
        if a.size == 0:
            shp = np.broadcast_shapes(*[i.shape for i in ixs]) if ixs else ()
            return np.zeros(shp, dtype=a.dtype)
        if not ixs:
            return a[()]
        return a[tuple(ixs)]

    def _reduce(self, opname: str, names: list[str], bounds: dict[str, Any], inner_expr: Any,
                env: dict[str, np.ndarray], mask: np.ndarray) -> Any:
        k = len(names)
        env2 = dict(env)
        mask2 = mask
        d0 = len(self.grid)
        saved_grid = list(self.grid)
        for name in names:
            lb_e, ub_e = bounds[name]
            lb = np.asarray(self.ev(lb_e, env2, mask2)).astype(np.int64)
            ub = np.asarray(self.ev(ub_e, env2, mask2)).astype(np.int64)
            width = np.broadcast_to(ub - lb, tuple(self.grid))
            fm = np.broadcast_to(mask2, tuple(self.grid))
            ext = int(width[fm].max()) if fm.any() and width.size else 0
            ext = max(ext, 0)
            d = len(self.grid)
            lbb = lb.reshape(lb.shape + (1,)) if lb.ndim == d else lb
            ubb = ub.reshape(ub.shape + (1,)) if ub.ndim == d else ub
            r = lbb + np.arange(ext, dtype=np.int64).reshape((1,) * d + (ext,))
            mr = r < ubb
            env2 = {n_: v.reshape(v.shape + (1,)) for n_, v in env2.items()}
            env2[name] = r
            mask2 = mask2.reshape(mask2.shape + (1,)) & mr
            self.grid.append(ext)
        inner = self.ev(inner_expr, env2, mask2)
        full = tuple(self.grid)
        v = np.broadcast_to(np.asarray(inner), full)
        m = np.broadcast_to(mask2, full)
        axes = tuple(range(d0, d0 + k))
        dt = v.dtype
        if opname == "SumReductionOperation":
            res = np.sum(np.where(m, v, np.zeros((), dt)), axis=axes, dtype=dt)
        elif opname == "ProductReductionOperation":
            res = np.prod(np.where(m, v, np.ones((), dt)), axis=axes, dtype=dt)
        elif opname == "MaxReductionOperation":
            neutral = (-np.inf if dt.kind == "f" else
                       np.iinfo(dt).min if dt.kind in "iu" else False)
            if v.size == 0 or any(full[a] == 0 for a in axes):
                res = np.full(full[:d0], neutral, dtype=dt)
            else:
                res = np.max(np.where(m, v, np.asarray(neutral, dtype=dt)), axis=axes)
        elif opname == "MinReductionOperation":
            neutral = (np.inf if dt.kind == "f" else
                       np.iinfo(dt).max if dt.kind in "iu" else True)
            if v.size == 0 or any(full[a] == 0 for a in axes):
                res = np.full(full[:d0], neutral, dtype=dt)
            else:
                res = np.min(np.where(m, v, np.asarray(neutral, dtype=dt)), axis=axes)
        elif opname == "AllReductionOperation":
            res = np.all(np.where(m, v.astype(bool), True), axis=axes)
            if getattr(self, "anyall_keep_arg_dtype", False):
                res = res.astype(dt)      # loopy: result dtype of all/any = operand dtype
        elif opname == "AnyReductionOperation":
            res = np.any(np.where(m, v.astype(bool), False), axis=axes)
            if getattr(self, "anyall_keep_arg_dtype", False):
                res = res.astype(dt)
        else:
            raise UnsupportedExpr(f"reduction op {opname}")
        self.grid = saved_grid
        return res


def eval_index_lambda(il: Any, binding_values: dict[str, np.ndarray],
                      out_shape: tuple[int, ...] | None = None
                      ) -> tuple[np.ndarray, ILEval]:
    """Evaluate IndexLambda *il* with concrete *binding_values*.

    Returns the array (cast to ``il.dtype``) and the evaluator (for its access
    events).  *out_shape* must be given when ``il.shape`` is symbolic.
    """
    if out_shape is None:
        out_shape = tuple(int(s) for s in il.shape)
    ev = ILEval(binding_values, out_shape)
    val = ev.run(il.expr)
    ev.natural_dtype = np.asarray(val).dtype  # type: ignore[attr-defined]
    with np.errstate(all="ignore"):
        return np.asarray(val).astype(il.dtype), ev
