"""Reflective walker over pytato graphs: children are enumerated from
``dataclasses.fields`` only, never through a pytato mapper.

Provides: edge enumeration, reachable-node sets, a structural fingerprint
(hash-consed, memoised by ``id``), tag stripping, and rebuild-with-substitution.
"""
from __future__ import annotations

import dataclasses
import hashlib
from collections.abc import Mapping
from typing import Any, Callable, Iterator

import numpy as np


def _types() -> dict[str, Any]:
    import pytato as pt
    from pytato.array import (AbstractResultWithNamedArrays, Array, CSRMatrix,
                              NormalizedSlice)
    from pytato.distributed.nodes import DistributedSend
    from pytato.function import FunctionDefinition
    return {"Array": Array, "ARWNA": AbstractResultWithNamedArrays,
            "CSRMatrix": CSRMatrix, "NormalizedSlice": NormalizedSlice,
            "DistributedSend": DistributedSend, "FunctionDefinition": FunctionDefinition,
            "pt": pt}


_T: dict[str, Any] | None = None


def T() -> dict[str, Any]:
    global _T
    if _T is None:
        _T = _types()
    return _T


def is_node(x: Any) -> bool:
    """Things pytato mappers are dispatched on."""
    t = T()
    return isinstance(x, (t["Array"], t["ARWNA"]))


def is_passthrough(x: Any) -> bool:
    """Structured non-node values whose fields may hold nodes."""
    t = T()
    # NormalizedSlice bounds are structural children (hash-consing, rebuilding, equality),
    # but their edge kind is "slice_bound": no pytato mapper traverses the (possibly
    # symbolic) start/stop of a normalised slice -- a uniform convention; C13/C20 skip
    # these edges (MAPPER_INVISIBLE).
    return isinstance(x, (t["CSRMatrix"], t["NormalizedSlice"], t["DistributedSend"]))


def field_items(obj: Any) -> list[tuple[str, Any]]:
    return [(f.name, getattr(obj, f.name)) for f in dataclasses.fields(obj)]


def _sub_nodes(value: Any, path: str) -> Iterator[tuple[str, Any]]:
    """Yield (path, node) for nodes directly held by *value* (not recursing
    through nodes)."""
    t = T()
    if is_node(value):
        yield path, value
    elif isinstance(value, t["FunctionDefinition"]):
        for k in sorted(value.returns):
            yield f"{path}.returns[{k}]", value.returns[k]
    elif is_passthrough(value):
        for n, v in field_items(value):
            yield from _sub_nodes(v, f"{path}.{n}")
    elif isinstance(value, tuple):
        for i, v in enumerate(value):
            yield from _sub_nodes(v, f"{path}[{i}]")
    elif isinstance(value, Mapping):
        for k in sorted(value, key=repr):
            yield from _sub_nodes(value[k], f"{path}[{k}]")


def edges(node: Any) -> list[tuple[str, Any]]:
    """Direct (path, child) edges of *node*, from dataclass fields."""
    out: list[tuple[str, Any]] = []
    for n, v in field_items(node):
        if n in ("tags", "non_equality_tags", "axes"):
            continue
        out.extend(_sub_nodes(v, n))
    return out


def edge_kind(path: str) -> str:
    if ".returns[" in path:
        return "function_body"
    if path.startswith("shape") or path.startswith("newshape"):
        return "shape"
    if path.startswith("indices"):
        if path.endswith(".start") or path.endswith(".stop") or path.endswith(".step"):
            return "slice_bound"
        return "index"
    if path.startswith("matrix"):
        return "csr_part"
    if path.startswith("send"):
        return "send_payload"
    if path.startswith("bindings"):
        return "binding"
    if path.startswith("_container"):
        return "container"
    if path.startswith("_data"):
        return "dict_entry"
    return "operand"


def walk(root: Any, enter_functions: bool = True,
         skip_kinds: tuple[str, ...] = ()) -> list[Any]:
    """All nodes reachable from *root* (including root), each object once, in
    a deterministic post-order."""
    seen: set[int] = set()
    order: list[Any] = []
    stack: list[tuple[Any, bool]] = [(root, False)]
    while stack:
        n, done = stack.pop()
        if done:
            order.append(n)
            continue
        if id(n) in seen:
            continue
        seen.add(id(n))
        stack.append((n, True))
        for path, c in reversed(edges(n)):
            if not enter_functions and edge_kind(path) == "function_body":
                continue
            if skip_kinds and edge_kind(path) in skip_kinds:
                continue
            if id(c) not in seen:
                stack.append((c, False))
    return order


MAPPER_INVISIBLE = ("slice_bound",)


def all_edges(root: Any, enter_functions: bool = True,
              skip_kinds: tuple[str, ...] = ()) -> list[tuple[Any, str, Any]]:
    out = []
    for n in walk(root, enter_functions, skip_kinds):
        for path, c in edges(n):
            if not enter_functions and edge_kind(path) == "function_body":
                continue
            if skip_kinds and edge_kind(path) in skip_kinds:
                continue
            out.append((n, path, c))
    return out


# ---------------------------------------------------------------------------
# fingerprint


def _h(*parts: str) -> str:
    m = hashlib.sha1()
    for p in parts:
        m.update(p.encode())
        m.update(b"\0")
    return m.hexdigest()


def data_digest(a: Any) -> str:
    if isinstance(a, np.ndarray):
        return _h("nd", str(a.dtype), repr(a.shape),
                  hashlib.sha1(np.ascontiguousarray(a).tobytes()).hexdigest())
    return _h("data", type(a).__name__, repr(getattr(a, "shape", None)),
              repr(getattr(a, "dtype", None)))


class Fingerprinter:
    """Structural fingerprint over dataclass *fields only*.

    ``with_identity``: include ``id`` of wrapped data objects (for
    before/after mutation checks).  ``with_tags``/``with_neq_tags`` select which
    tag sets take part.
    """

    def __init__(self, with_identity: bool = False, with_tags: bool = True,
                 with_neq_tags: bool = False, with_axes_tags: bool = True,
                 with_data: bool = True):
        self.memo: dict[int, str] = {}
        self.keep: list[Any] = []
        self.with_identity = with_identity
        self.with_tags = with_tags
        self.with_neq_tags = with_neq_tags
        self.with_axes_tags = with_axes_tags
        self.with_data = with_data

    def tagset(self, tags: Any) -> str:
        return _h("tags", *sorted(repr(t) for t in tags))

    def value(self, v: Any) -> str:
        t = T()
        if is_node(v) or isinstance(v, (t["FunctionDefinition"],)) or is_passthrough(v):
            return self.node(v)
        if isinstance(v, tuple):
            return _h("tuple", *[self.value(x) for x in v])
        if isinstance(v, (frozenset, set)):
            return _h("set", *sorted(self.value(x) for x in v))
        if isinstance(v, Mapping):
            items = sorted(((repr(k), self.value(x)) for k, x in v.items()))
            return _h("map", *[k + "=" + x for k, x in items])
        if isinstance(v, np.ndarray):
            d = data_digest(v) if self.with_data else "nd"
            return _h(d, str(id(v)) if self.with_identity else "")
        if isinstance(v, np.dtype):
            return _h("dtype", v.str, str(v))
        if isinstance(v, (np.generic,)):
            return _h("npscalar", type(v).__name__, repr(v))
        if isinstance(v, (bool, int, float, complex, str, bytes, type(None))):
            return _h(type(v).__name__, repr(v))
        if dataclasses.is_dataclass(v) and not isinstance(v, type):
            # Axis, ReductionDescriptor, einsum descriptors, tags, pymbolic exprs
            tn = type(v).__name__
            if tn in ("Axis", "ReductionDescriptor"):
                return _h(tn, self.tagset(v.tags) if self.with_axes_tags else "")
            return _h("dc", type(v).__module__, tn,
                      *[n + "=" + self.value(x) for n, x in field_items(v)])
        if isinstance(v, type):
            return _h("type", v.__module__, v.__qualname__)
        import enum
        if isinstance(v, enum.Enum):
            return _h("enum", type(v).__name__, v.name)
        if hasattr(v, "shape") and hasattr(v, "dtype"):
            return _h(data_digest(v), str(id(v)) if self.with_identity else "")
        if type(v).__module__.startswith("pytato.") and not getattr(v, "__dict__", None):
            # stateless pytato objects (reduction operations): their hash is address-based,
            # the class is the value
            return _h("stateless", type(v).__module__, type(v).__qualname__)
        try:
            return _h("obj", type(v).__name__, str(hash(v)))
        except TypeError:
            return _h("obj", type(v).__name__, repr(v)[:200])

    def node(self, n: Any) -> str:
        k = id(n)
        if k in self.memo:
            return self.memo[k]
        self.keep.append(n)
        parts = [type(n).__module__, type(n).__qualname__]
        for name, v in field_items(n):
            if name == "tags":
                parts.append("tags=" + (self.tagset(v) if self.with_tags else ""))
            elif name == "non_equality_tags":
                parts.append("neq=" + (self.tagset(v) if self.with_neq_tags else ""))
            else:
                parts.append(name + "=" + self.value(v))
        r = _h(*parts)
        self.memo[k] = r
        return r


def fingerprint(root: Any, **kw: Any) -> str:
    return Fingerprinter(**kw).value(root)


# ---------------------------------------------------------------------------
# rebuild with substitution (identity-preserving where nothing changes)


def rebuild(root: Any, fn: Callable[[Any, dict[str, Any]], Any | None],
            enter: Callable[[Any], None] | None = None,
            leave: Callable[[Any], None] | None = None) -> Any:
    """Bottom-up rebuild of a graph.  For every node, children are rebuilt
    first; then ``fn(node, new_field_values)`` may return a replacement (or
    None to use ``dataclasses.replace`` when any field changed)."""
    t = T()
    memo: dict[int, Any] = {}
    keep: list[Any] = []

    def rv(v: Any) -> Any:
        if is_node(v) or isinstance(v, t["FunctionDefinition"]) or is_passthrough(v):
            return rn(v)
        if isinstance(v, tuple):
            new = tuple(rv(x) for x in v)
            return v if all(a is b for a, b in zip(new, v)) else new
        if isinstance(v, Mapping) and not isinstance(v, (str, bytes)):
            new = {k: rv(x) for k, x in v.items()}
            if all(new[k] is v[k] for k in v):
                return v
            return type(v)(new)
        return v

    def rn(n: Any) -> Any:
        if id(n) in memo:
            return memo[id(n)]
        keep.append(n)
        newvals: dict[str, Any] = {}
        changed = False
        if enter is not None:
            enter(n)
        for name, v in field_items(n):
            nv = rv(v)
            newvals[name] = nv
            if nv is not v:
                changed = True
        if leave is not None:
            leave(n)
        res = fn(n, newvals)
        if res is None:
            if changed:
                res = _construct_like(n, newvals)
            else:
                res = n
        memo[id(n)] = res
        return res

    return rv(root)


def _construct_like(n: Any, vals: dict[str, Any]) -> Any:
    t = T()
    pt = t["pt"]
    if isinstance(n, pt.DictOfNamedArrays):
        return pt.DictOfNamedArrays(vals["_data"], tags=vals["tags"])
    if isinstance(n, pt.NamedArray):
        # named results are handed out (memoised) by their container; go through it so
        # that the container's own `[name]` yields this very object
        try:
            r = vals["_container"][vals["name"]]
            if type(r) is type(n) and r.tags == vals["tags"] and r.axes == vals["axes"] \
                    and r.non_equality_tags == vals.get("non_equality_tags", frozenset()):
                return r
        except Exception:  # noqa: BLE001
            pass
    init_fields = {f.name for f in dataclasses.fields(n) if f.init}
    return type(n)(**{k: v for k, v in vals.items() if k in init_fields})


def replace_field(n: Any, **changes: Any) -> Any:
    vals = dict(field_items(n))
    vals.update(changes)
    return _construct_like(n, vals)


def hashcons(root: Any) -> Any:
    """A duplicate-free copy: structurally equal nodes become one object (decided by the
    reflective fingerprint, not by pytato's equality)."""
    fp = Fingerprinter(with_neq_tags=True)
    canon: dict[Any, Any] = {}
    t = T()
    # arrays of different function bodies live in different name spaces: equal nodes of two
    # bodies stay two objects (pytato's mappers keep one array cache per body); function
    # definitions themselves are shared globally
    stack: list[int] = [0]

    def enter(n: Any) -> None:
        if isinstance(n, t["FunctionDefinition"]):
            stack.append(id(n))

    def leave(n: Any) -> None:
        if isinstance(n, t["FunctionDefinition"]):
            stack.pop()

    def fn(n: Any, vals: dict[str, Any]) -> Any:
        changed = any(vals[k] is not getattr(n, k) for k in vals)
        res = _construct_like(n, vals) if changed else n
        ns = 0 if isinstance(n, t["FunctionDefinition"]) else stack[-1]
        key = (ns, fp.node(res))
        if key in canon:
            return canon[key]
        canon[key] = res
        return res
    return rebuild(root, fn, enter, leave)


def duplicate_groups(root: Any, skip_kinds: tuple[str, ...] = ()) -> int:
    """Number of structurally equal pairs of distinct node objects -- within one name space
    (the top level, or the body of one function definition; equal nodes of two bodies are
    not duplicates of each other), function definitions among themselves."""
    fp = Fingerprinter(with_neq_tags=True)
    t = T()
    dups = 0
    funcs: dict[int, Any] = {}
    pending = [("top", root)]
    done: set[int] = set()
    while pending:
        _label, r = pending.pop()
        seen: dict[str, int] = {}
        roots = list(r.returns.values()) if isinstance(r, t["FunctionDefinition"]) else [r]
        visited: set[int] = set()
        for rr in roots:
            for n in walk(rr, enter_functions=False, skip_kinds=skip_kinds):
                if id(n) in visited:
                    continue
                visited.add(id(n))
                k = fp.node(n)
                if k in seen:
                    dups += 1
                seen[k] = seen.get(k, 0) + 1
                f = getattr(n, "function", None)
                if isinstance(f, t["FunctionDefinition"]) and id(f) not in done:
                    done.add(id(f))
                    funcs[id(f)] = f
                    pending.append(("fn", f))
    fseen: dict[str, int] = {}
    for f in funcs.values():
        k = fp.node(f)
        if k in fseen:
            dups += 1
        fseen[k] = 1
    return dups


def clone_node(n: Any) -> Any:
    """A distinct object structurally equal to *n* (same children objects)."""
    return _construct_like(n, dict(field_items(n)))


def conflated_groups(root: Any) -> int:
    """Number of groups of DISTINCT objects (with different fingerprints or not) that pytato's
    own == / hash treat as one node (e.g. x + 0.0 and x + -0.0)."""
    byeq: dict[Any, int] = {}
    for n in walk(root):
        try:
            byeq[n] = byeq.get(n, 0) + 1
        except Exception:  # noqa: BLE001
            continue
    return sum(1 for v in byeq.values() if v > 1)
