"""Reference evaluator for arbitrary pytato DAGs.

Shares no code with pytato's mappers: traversal is by explicit attribute access
per node kind, high-level nodes are given their NumPy meaning, IndexLambdas go
through :mod:`vf.oracle.ilinterp`.
"""
from __future__ import annotations

from typing import Any, Callable

import numpy as np

from vf.oracle import ilinterp


class RefEvalError(Exception):
    pass


class RefEval:
    def __init__(self, env: dict[str, Any],
                 recv: Callable[[Any], np.ndarray] | None = None,
                 loopy_exec: Callable[[Any, dict[str, Any]], dict[str, np.ndarray]] | None = None):
        """*env* maps placeholder / size-parameter names to values."""
        self.env = env
        self.recv = recv
        self.loopy_exec = loopy_exec
        self.memo: dict[int, Any] = {}
        self.keep: list[Any] = []
        self.oob: list[dict[str, Any]] = []
        self.sends: list[tuple[Any, np.ndarray]] = []
        self._seen_sends: set[int] = set()

    # -- shapes
    def dim(self, d: Any) -> int:
        if isinstance(d, (int, np.integer)):
            return int(d)
        v = self(d)
        return int(np.asarray(v)[()])

    def shape(self, shp: Any) -> tuple[int, ...]:
        return tuple(self.dim(d) for d in shp)

    # -- entry
    def __call__(self, n: Any) -> Any:
        k = id(n)
        if k in self.memo:
            return self.memo[k]
        self.keep.append(n)
        tn = type(n).__name__
        m = getattr(self, "ev_" + tn, None)
        if m is None:
            # subclass fall-backs
            import pytato as pt
            from pytato.function import NamedCallResult
            from pytato.loopy import LoopyCallResult
            if isinstance(n, LoopyCallResult):
                m = self.ev_LoopyCallResult
            elif isinstance(n, NamedCallResult):
                m = self.ev_NamedCallResult
            elif isinstance(n, pt.NamedArray):
                m = self.ev_NamedArray
            else:
                raise RefEvalError(f"no reference semantics for node type {tn}")
        r = m(n)
        self.memo[k] = r
        return r

    def cast(self, n: Any, v: Any) -> np.ndarray:
        v = np.asarray(v)
        if v.dtype != n.dtype:
            with np.errstate(all="ignore"):
                v = v.astype(n.dtype)
        return v

    # -- inputs
    def ev_Placeholder(self, n: Any) -> Any:
        if n.name not in self.env:
            raise RefEvalError(f"no value for placeholder {n.name!r}")
        return np.asarray(self.env[n.name])

    def ev_SizeParam(self, n: Any) -> Any:
        if n.name not in self.env:
            raise RefEvalError(f"no value for size param {n.name!r}")
        return np.asarray(self.env[n.name], dtype=n.dtype)

    def ev_DataWrapper(self, n: Any) -> Any:
        return np.asarray(n.data)

    # -- core
    def ev_IndexLambda(self, n: Any) -> Any:
        b = {k: np.asarray(self(v)) for k, v in n.bindings.items()}
        val, ev = ilinterp.eval_index_lambda(n, b, self.shape(n.shape))
        for o in ev.oob:
            self.oob.append({"node": "IndexLambda", **o})
        return val

    def ev_Stack(self, n: Any) -> Any:
        return self.cast(n, np.stack([self(a) for a in n.arrays], axis=n.axis))

    def ev_Concatenate(self, n: Any) -> Any:
        return self.cast(n, np.concatenate([self(a) for a in n.arrays], axis=n.axis))

    def ev_Roll(self, n: Any) -> Any:
        return np.roll(self(n.array), n.shift, axis=n.axis)

    def ev_AxisPermutation(self, n: Any) -> Any:
        return np.transpose(self(n.array), n.axis_permutation)

    def ev_Reshape(self, n: Any) -> Any:
        return np.reshape(self(n.array), self.shape(n.newshape), order=n.order)

    def _np_index(self, n: Any) -> tuple[Any, ...]:
        """Rebuild a NumPy index from the *documented* meaning of normalised
        indices: start in [0, len-1] (or len), stop in [-1, len], where a stop of
        -1 with negative step means 'through index 0'."""
        from pytato.array import NormalizedSlice
        import pytato as pt
        idx: list[Any] = []
        for i in n.indices:
            if isinstance(i, NormalizedSlice):
                start, stop, step = self.dim(i.start), self.dim(i.stop), int(i.step)
                # mathematical meaning: start, start+step, ... strictly before stop
                lst = range(start, stop, step)
                if len(lst) == 0:
                    idx.append(slice(0, 0, 1))
                else:
                    end = lst[-1] + step
                    idx.append(slice(lst[0], end if end >= 0 else None, step))
            elif isinstance(i, pt.Array):
                idx.append(np.asarray(self(i)))
            else:
                idx.append(int(i))
        return tuple(idx)

    def ev_BasicIndex(self, n: Any) -> Any:
        return self(n.array)[self._np_index(n)]

    def ev_AdvancedIndexInContiguousAxes(self, n: Any) -> Any:
        return self(n.array)[self._np_index(n)]

    def ev_AdvancedIndexInNoncontiguousAxes(self, n: Any) -> Any:
        return self(n.array)[self._np_index(n)]

    def ev_Einsum(self, n: Any) -> Any:
        from pytato.array import EinsumElementwiseAxis, EinsumReductionAxis
        letters = "abcdefghijklmnopqrstuvwxyzABCDEFGHIJKLMNOPQRSTUVWXYZ"
        names: dict[Any, str] = {}

        def letter(d: Any) -> str:
            if d not in names:
                names[d] = letters[len(names)]
            return names[d]

        out_nd = len(n.axes)
        out = "".join(letter(EinsumElementwiseAxis(i)) for i in range(out_nd))
        vals = [np.asarray(self(a)) for a in n.args]
        # length of each descriptor = max over operands (others must be 1)
        seen: dict[Any, set[int]] = {}
        for descrs, v in zip(n.access_descriptors, vals):
            for d, l in zip(descrs, v.shape):
                seen.setdefault(d, set()).add(int(l))
        lens: dict[Any, int] = {}
        for d, ls in seen.items():
            non1 = ls - {1}
            if len(non1) > 1:
                raise RefEvalError("einsum operand lengths inconsistent")
            lens[d] = non1.pop() if non1 else 1
        ins = []
        bvals = []
        for descrs, v in zip(n.access_descriptors, vals):
            ins.append("".join(letter(d) for d in descrs))
            tgt = tuple(lens[d] for d in descrs)
            # unit-axis broadcasting (documented in _normalize_einsum_in_subscript)
            for l_have, l_want in zip(v.shape, tgt):
                if l_have != l_want and l_have != 1:
                    raise RefEvalError("einsum operand lengths inconsistent")
            bvals.append(np.broadcast_to(v, tgt))
        spec = ",".join(ins) + "->" + out
        # repeated index within one operand is fine for np.einsum
        res = np.einsum(spec, *bvals)
        return self.cast(n, res)

    def ev_CSRMatmul(self, n: Any) -> Any:
        m = n.matrix
        vals = np.asarray(self(m.elem_values))
        cols = np.asarray(self(m.elem_col_indices))
        rows = np.asarray(self(m.row_starts))
        x = np.asarray(self(n.array))
        nrows, ncols = self.shape(m.shape)
        dt = np.result_type(vals.dtype, x.dtype)
        dense = np.zeros((nrows, ncols), dtype=dt)
        for r in range(nrows):
            for j in range(int(rows[r]), int(rows[r + 1])):
                dense[r, int(cols[j])] += vals[j]
        with np.errstate(all="ignore"):
            res = np.tensordot(dense, x.astype(dt), axes=(1, 0))
        return self.cast(n, res)

    # -- containers
    def ev_DictOfNamedArrays(self, n: Any) -> Any:
        return {k: self(v) for k, v in n._data.items()}

    def ev_NamedArray(self, n: Any) -> Any:
        return self(n._container)[n.name]

    # -- functions
    def ev_Call(self, n: Any) -> Any:
        inner_env = {k: self(v) for k, v in n.bindings.items()}
        sub = RefEval(inner_env, self.recv, self.loopy_exec)
        res = {k: sub(v) for k, v in n.function.returns.items()}
        self.oob.extend(sub.oob)
        return res

    def ev_NamedCallResult(self, n: Any) -> Any:
        return self(n._container)[n.name]

    # -- loopy
    def ev_LoopyCall(self, n: Any) -> Any:
        if self.loopy_exec is None:
            raise RefEvalError("no loopy executor supplied")
        import pytato as pt
        b = {k: (self(v) if isinstance(v, pt.Array) else v)
             for k, v in n.bindings.items()}
        return self.loopy_exec(n, b)

    def ev_LoopyCallResult(self, n: Any) -> Any:
        return self(n._container)[n.name]

    # -- distributed
    def ev_DistributedSendRefHolder(self, n: Any) -> Any:
        if id(n.send) not in self._seen_sends:
            self._seen_sends.add(id(n.send))
            self.sends.append((n.send, np.asarray(self(n.send.data))))
        return self(n.passthrough_data)

    def ev_DistributedRecv(self, n: Any) -> Any:
        if self.recv is None:
            raise RefEvalError("no receive resolver supplied")
        return np.asarray(self.recv(n))


def evaluate(expr: Any, env: dict[str, Any], **kw: Any) -> Any:
    ev = RefEval(env, **kw)
    return ev(expr), ev
