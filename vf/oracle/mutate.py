"""Reflective one-field mutator: for a node and one of its dataclass fields, produce a
node that differs in exactly that field (used by C04 / C18)."""
from __future__ import annotations

import dataclasses
import enum
from collections.abc import Mapping
from typing import Any

import numpy as np

from vf.oracle import reflect


class Skip(Exception):
    pass


_counter = [0]


def fresh_like(a: Any) -> Any:
    import pytato as pt
    _counter[0] += 1
    try:
        return pt.make_placeholder(f"mut{_counter[0]}", a.shape, a.dtype)
    except Exception as e:  # noqa: BLE001
        raise Skip(str(e)) from e


def mutate_value(v: Any, field: str, node: Any) -> Any:
    """A value of the same type as *v* that is different from it."""
    import pymbolic.primitives as prim
    import pytato as pt
    from pytato.array import (Axis, EinsumElementwiseAxis, EinsumReductionAxis,
                              NormalizedSlice, ReductionDescriptor)
    from vf.vtags import VAxisTag, VRednTag, VTag
    t = reflect.T()
    if field in ("tags", "non_equality_tags"):
        return frozenset(v) | {VTag(987654)}
    if isinstance(v, (bool, np.bool_)):
        return type(v)(not v)
    if isinstance(v, enum.Enum):
        members = list(type(v))
        return members[(members.index(v) + 1) % len(members)]
    if isinstance(v, (int, np.integer)) and not isinstance(v, bool):
        return v + 1
    if isinstance(v, str):
        if field == "order":
            return "F" if v.upper() == "C" else "C"
        return v + "_m"
    if isinstance(v, np.dtype):
        return np.dtype(np.float32) if v != np.float32 else np.dtype(np.float64)
    if isinstance(v, Axis):
        return v.tagged(VAxisTag(424242))
    if isinstance(v, ReductionDescriptor):
        return v.tagged(VRednTag(424242))
    if isinstance(v, NormalizedSlice):
        return NormalizedSlice(v.start, v.stop, v.step + (1 if v.step > 0 else -1))
    if isinstance(v, EinsumElementwiseAxis):
        return EinsumReductionAxis(v.dim)
    if isinstance(v, EinsumReductionAxis):
        return EinsumReductionAxis(v.dim + 1)
    if isinstance(v, t["FunctionDefinition"]):
        k = sorted(v.returns)[0]
        from constantdict import constantdict
        newret = dict(v.returns)
        newret[k] = newret[k] + 1 if isinstance(newret[k], pt.Array) else newret[k]
        return dataclasses.replace(v, returns=constantdict(newret))
    if isinstance(v, t["CSRMatrix"]):
        raise Skip("CSRMatrix handled field-wise")
    if isinstance(v, t["DistributedSend"]):
        raise Skip("send handled field-wise")
    if isinstance(v, pt.Array):
        return fresh_like(v)
    if isinstance(v, t["ARWNA"]):
        raise Skip("container")
    if isinstance(v, frozenset):
        if field == "parameters":
            raise Skip("parameters are tied to bindings by an assertion")
        return v | {"zz_mut"}
    if isinstance(v, tuple):
        if not v:
            if field in ("shape", "newshape"):
                raise Skip("empty shape")
            raise Skip("empty tuple")
        # mutate one element (prefer the last; swapping for permutations)
        if field == "axis_permutation":
            if len(v) < 2:
                raise Skip("perm of length <2")
            return (v[1], v[0], *v[2:])
        for j in range(len(v) - 1, -1, -1):
            try:
                nv = mutate_value(v[j], field + "[]", node)
                return (*v[:j], nv, *v[j + 1:])
            except Skip:
                continue
        raise Skip("no mutable element")
    if isinstance(v, Mapping):
        if not v:
            raise Skip("empty mapping")
        k = sorted(v, key=repr)[0]
        nv = dict(v)
        nv[k] = mutate_value(v[k], field + "{}", node)
        return type(v)(nv)
    if isinstance(v, prim.ExpressionNode) or isinstance(v, (float, complex, np.generic)):
        if field.startswith("expr"):
            return prim.Sum((v, 1)) if not isinstance(v, (float, complex, np.generic)) \
                else type(v)(v + 1)
        if isinstance(v, (float, complex, np.generic)):
            return type(v)(v + 1)
        return prim.Sum((v, 1))
    if type(v).__name__ == "TranslationUnit":
        from vf.gen.progspec import lpk
        for k in sorted(lpk()):
            if lpk()[k] != v:
                return lpk()[k]
    if field == "comm_tag" or field.startswith("comm_tag"):
        return ("mut", v)
    if v is None:
        raise Skip("None")
    raise Skip(f"no mutator for {type(v).__name__} in field {field}")


def expr_variants(expr: Any) -> list[tuple[str, Any]]:
    """Semantically different variants of a scalar expression: other reduction
    operation, other reduction bound, other cast dtype, other constant."""
    import pymbolic.primitives as prim
    from pytato import reductions as red
    from pytato.scalar_expr import IdentityMapper, Reduce, TypeCast
    out: list[tuple[str, Any]] = []

    class M(IdentityMapper):  # type: ignore[misc,type-arg]
        def __init__(self, what: str):
            super().__init__()
            self.what = what
            self.done = False

        def map_reduce(self, e: Any, *a: Any, **k: Any) -> Any:
            if not self.done and self.what == "reduce-op":
                self.done = True
                op = red.MaxReductionOperation() if not isinstance(
                    e.op, red.MaxReductionOperation) else red.SumReductionOperation()
                return Reduce(e.inner_expr, op, e.bounds)
            if not self.done and self.what == "reduce-bounds":
                self.done = True
                from constantdict import constantdict
                b = dict(e.bounds)
                k0 = sorted(b)[0]
                lo, hi = b[k0]
                b[k0] = (lo, hi + 1)
                return Reduce(e.inner_expr, e.op, constantdict(b))
            return super().map_reduce(e, *a, **k)

        def map_type_cast(self, e: Any, *a: Any, **k: Any) -> Any:
            if not self.done and self.what == "typecast":
                self.done = True
                dt = np.dtype(np.float32) if e.dtype != np.float32 else np.dtype(np.float64)
                return TypeCast(dt, e.inner_expr)
            return super().map_type_cast(e, *a, **k)

        def map_constant(self, e: Any, *a: Any, **k: Any) -> Any:
            if not self.done and self.what == "constant" and isinstance(e, (bool, np.bool_)):
                self.done = True
                return type(e)(not e)
            if not self.done and self.what == "constant" and not isinstance(e, bool) \
                    and isinstance(e, (int, float, complex, np.number)):
                self.done = True
                return type(e)(e + 1)
            return e

        def map_comparison(self, e: Any, *a: Any, **k: Any) -> Any:
            if not self.done and self.what == "comparison-op":
                self.done = True
                return prim.Comparison(e.left, "<=" if e.operator != "<=" else "<", e.right)
            return super().map_comparison(e, *a, **k)
    for what in ("reduce-op", "reduce-bounds", "typecast", "constant", "comparison-op"):
        try:
            m = M(what)
            ne = m(expr)
            if m.done:
                out.append((what, ne))
        except Exception:  # noqa: BLE001
            continue
    return out


def field_mutants(node: Any) -> list[tuple[str, Any]]:
    """[(field path, mutated node)] -- one entry per (possibly nested) field."""
    t = reflect.T()
    out: list[tuple[str, Any]] = []
    if type(node).__name__ == "IndexLambda":
        for what, ne in expr_variants(node.expr):
            try:
                out.append((f"expr:{what}", reflect.replace_field(node, expr=ne)))
            except Exception:  # noqa: BLE001
                continue
    for name, v in reflect.field_items(node):
        if isinstance(v, (t["CSRMatrix"], t["DistributedSend"])):
            for n2, v2 in reflect.field_items(v):
                try:
                    nv2 = mutate_value(v2, n2, v)
                    inner = dataclasses.replace(v, **{n2: nv2})
                    out.append((f"{name}.{n2}", reflect.replace_field(node, **{name: inner})))
                except Skip:
                    continue
                except Exception:  # noqa: BLE001 -- constructor refuses the mutant
                    continue
            continue
        try:
            nv = mutate_value(v, name, node)
            out.append((name, reflect.replace_field(node, **{name: nv})))
        except Skip:
            pass
        except Exception:  # noqa: BLE001
            pass
        # length variants of tuple-valued fields that hold arrays (a zip() that truncates
        # accepts a proper prefix)
        if isinstance(v, tuple) and v and all(reflect.is_node(x) for x in v) \
                and type(node).__name__ != "Einsum":   # (its args are tied to the descriptors)
            for vname, nv2 in ((f"{name}+elem", (*v, v[-1])),
                               (f"{name}-elem", v[:-1] if len(v) >= 2 else None)):
                if nv2 is None:
                    continue
                try:
                    out.append((vname, reflect.replace_field(node, **{name: nv2})))
                except Exception:  # noqa: BLE001 -- constructor refuses
                    continue
        # key-set variants of mapping-valued fields: one more key / one key less (a one-sided
        # comparison `all(k in other ...)` accepts a sub-mapping)
        for sub, mp, setter in _mappings(name, v):
            keys = sorted(mp, key=repr)
            if not keys:
                continue
            variants = []
            k0 = keys[-1]
            if isinstance(k0, str):
                variants.append((f"{sub}+key", {**dict(mp), k0 + "_zz": mp[k0]}))
            if len(keys) >= 2:
                variants.append((f"{sub}-key", {k: mp[k] for k in keys[:-1]}))
            # one key RENAMED, values and the order of the keys unchanged (a hash or a
            # comparison that lists the values in key order without the keys misses it)
            for kr in (keys[0], keys[-1]):
                if isinstance(kr, str) and kr + "_q" not in mp:
                    variants.append((f"{sub}~key", {(k + "_q" if k == kr else k): mp[k]
                                                    for k in keys}))
                    break
            for vname, nm in variants:
                try:
                    out.append((vname, reflect.replace_field(node, **{name: setter(nm)})))
                except Exception:  # noqa: BLE001 -- constructor refuses
                    continue
    return out


def _mappings(name: str, v: Any) -> list[tuple[str, Any, Any]]:
    """[(sub-path, mapping, setter(new mapping) -> new field value)] for a field value."""
    t = reflect.T()
    if isinstance(v, Mapping):
        return [(name, v, lambda nm, _t=type(v): _t(nm))]
    if isinstance(v, t["FunctionDefinition"]):
        from constantdict import constantdict
        return [(f"{name}.returns", v.returns,
                 lambda nm, _v=v: dataclasses.replace(_v, returns=constantdict(nm)))]
    return []


def substitute(root: Any, old: Any, new: Any) -> Any:
    """*root* with node *old* replaced by *new* everywhere (ancestors rebuilt)."""
    def fn(n: Any, vals: dict[str, Any]) -> Any:
        if n is old:
            return new
        return None
    return reflect.rebuild(root, fn)
