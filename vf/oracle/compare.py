"""Comparison helpers shared by the checks."""
from __future__ import annotations

from typing import Any

import numpy as np


def same_exact(got: np.ndarray, ref: np.ndarray) -> bool:
    got, ref = np.asarray(got), np.asarray(ref)
    if got.shape != ref.shape:
        return False
    if got.dtype.kind in "fc" or ref.dtype.kind in "fc":
        return bool(np.array_equal(got, ref, equal_nan=True))
    return bool(np.array_equal(got, ref))


def close_ulps(got: np.ndarray, ref: np.ndarray, ulps: float = 8.0,
               err: np.ndarray | None = None) -> bool:
    """Exact for bool/int; for inexact dtypes |got-ref| <= ulps*eps*|ref| (+ err),
    NaNs must coincide, infinities must coincide with sign."""
    got, ref = np.asarray(got), np.asarray(ref)
    if got.shape != ref.shape:
        return False
    if ref.dtype.kind not in "fc" and got.dtype.kind not in "fc":
        return bool(np.array_equal(got, ref))
    dt = ref.dtype if ref.dtype.kind in "fc" else got.dtype
    eps = np.finfo(dt).eps
    with np.errstate(all="ignore"):
        g = got.astype(np.complex128 if dt.kind == "c" else np.float64)
        r = ref.astype(np.complex128 if dt.kind == "c" else np.float64)
        nf = ~np.isfinite(g) | ~np.isfinite(r)
        if nf.any():
            # non-finite entries must coincide exactly (NaNs with NaNs, infinities with
            # sign), part by part for complex values
            if dt.kind == "c":
                if not (np.array_equal(g.real[nf], r.real[nf], equal_nan=True)
                        and np.array_equal(g.imag[nf], r.imag[nf], equal_nan=True)):
                    return False
            elif not np.array_equal(g[nf], r[nf], equal_nan=True):
                return False
        fin = ~nf
        d = np.abs(g - r)
        tol = ulps * eps * np.abs(r) + float(np.finfo(dt).tiny)
        if err is not None:
            tol = tol + np.broadcast_to(err, tol.shape)
        return bool(np.all(d[fin] <= tol[fin]))


def describe_diff(got: Any, ref: Any) -> dict[str, Any]:
    got, ref = np.asarray(got), np.asarray(ref)
    out: dict[str, Any] = {"got_shape": list(got.shape), "ref_shape": list(ref.shape),
                           "got_dtype": str(got.dtype), "ref_dtype": str(ref.dtype)}
    if got.shape == ref.shape and got.size:
        with np.errstate(all="ignore"):
            try:
                neq = ~((got == ref) | ((got != got) & (ref != ref)))
                idx = np.argwhere(neq)
                out["n_diff"] = int(neq.sum())
                if len(idx):
                    i = tuple(int(x) for x in idx[0])
                    out["first_diff_at"] = list(i)
                    out["got_there"] = repr(got[i])
                    out["ref_there"] = repr(ref[i])
            except Exception:  # noqa: BLE001
                pass
    return out
