"""``python -m vf.cli C07 --tier quick|thorough [--replay path]``"""
from __future__ import annotations

import argparse
import importlib
import json
import os
import sys
import time


def main() -> int:
    ap = argparse.ArgumentParser()
    ap.add_argument("prop")
    ap.add_argument("--tier", default=os.environ.get("VERIF_TIER", "quick"),
                    choices=["quick", "thorough"])
    ap.add_argument("--seed", type=int,
                    default=int(os.environ.get("VERIF_SEED", "0")))
    ap.add_argument("--replay")
    ap.add_argument("--shard")
    ap.add_argument("--out")
    a = ap.parse_args()

    prop = a.prop.upper()
    from vf import common
    mod = importlib.import_module(f"vf.checks.{prop.lower()}")

    if a.shard:
        # worker mode
        common.repo_setup()
        with open(a.shard) as f:
            shard = json.load(f)
        col = common.Collector()
        col._partial_path = a.out + ".partial"          # type: ignore[attr-defined]
        col._current_path = a.out + ".current"          # type: ignore[attr-defined]
        t0 = time.time()
        mod.run_shard(shard, col)
        col.counters["shard_wall_ms"] = int(1000 * (time.time() - t0))
        with open(a.out, "w") as f:
            json.dump(col.to_json(), f)
        return 0

    if a.replay:
        common.repo_setup()
        with open(a.replay) as f:
            rp = json.load(f)
        col = common.Collector()
        mod.replay(rp["witness"], col)
        if col.violations:
            for v in col.violations:
                print(f"VIOLATION property={prop} replay={a.replay}")
                print(f"  key={v['key']} :: {v['what']}")
                print("  witness=" + json.dumps(v["witness"])[:2000])
            return 1
        print(f"[{prop}] replay: no violation reproduced")
        return 0

    return common.run_check(prop, mod, a.tier, a.seed)


if __name__ == "__main__":
    sys.exit(main())
