"""Deterministic corpus of pytato graphs over every node kind (for C04, C13, C18, C20).

``build(desc)`` builds the same graph every time it is called with the same
descriptor (in any process), so "independently rebuilt copy" is literal.
"""
from __future__ import annotations

import random
from typing import Any

import numpy as np

KINDS = ["prog", "prog", "prog_loopy", "fn", "dist", "sym", "ladder", "edges", "csr", "misc"]


def descriptors(seed: int, n: int) -> list[dict[str, Any]]:
    rng = random.Random(seed)
    out = []
    for i in range(n):
        out.append({"kind": KINDS[i % len(KINDS)], "seed": rng.getrandbits(31),
                    "dw": False})
    return out


def build(desc: dict[str, Any]) -> Any:
    """-> DictOfNamedArrays (or Array for some kinds)."""
    import pytato as pt
    kind = desc["kind"]
    seed = desc["seed"]
    rng = random.Random(seed)
    if kind in ("prog", "prog_loopy"):
        from vf.gen import proggen
        from vf.gen import progspec as ps
        prof = rng.choice(["mixed", "index", "reduce", "einsum", "zero"])
        spec = proggen.generate(seed, prof, n_nodes=rng.choice([4, 8, 12, 18]),
                                opts={"no_loopy": kind == "prog",
                                      "dw_prob": 0.25 if desc.get("dw") else 0.0})
        try:
            b = ps.PtBuild(spec)
            return pt.make_dict_of_named_arrays(b.outputs())
        except Exception:  # noqa: BLE001 -- construction failures are C01's; fall back
            return build({"kind": "misc", "seed": seed})
    if kind == "sym":
        from vf.gen import symgen
        spec = symgen.generate(seed)
        try:
            sb = symgen.SymBuild(spec)
            return pt.make_dict_of_named_arrays(sb.outputs())
        except Exception:  # noqa: BLE001
            return build({"kind": "misc", "seed": seed})
    if kind == "fn":
        return build_fn(rng)
    if kind == "dist":
        return build_dist(rng)
    if kind == "ladder":
        return build_ladder(rng.choice([5, 12, 30, 60]), rng)
    if kind == "edges":
        return build_edges(rng)
    if kind == "csr":
        return build_csr(rng)
    return build_misc(rng, bool(desc.get("dw")))


def build_fn(rng: random.Random) -> Any:
    import pytato as pt
    from pytato.function import trace_call
    n = rng.randrange(2, 5)
    x = pt.make_placeholder("x", (n, 3), np.float64)
    y = pt.make_placeholder("y", (3,), np.float64)
    variant = rng.randrange(6)

    def f(a: Any, b: Any) -> Any:
        t = a * 2 + b
        return pt.sum(t, axis=1) + pt.amax(a)

    def g(a: Any, b: Any) -> Any:
        return a + b, a * b

    def h(a: Any) -> Any:
        return {"twice": 2 * a, "sq": a * a}

    r1 = trace_call(f, x, y)
    r2 = trace_call(f, x + 1, y * 2)             # same definition, other arguments
    outs: dict[str, Any] = {"r1": r1, "r2": r2}
    if variant >= 1:
        s, p = trace_call(g, x, y)
        outs["s"] = s
        outs["p"] = pt.sum(p)
    if variant >= 2:
        d = trace_call(h, x)
        outs["tw"] = d["twice"]
        outs["sq"] = d["sq"] + r1.reshape(n, 1) if hasattr(r1, "reshape") else d["sq"]
    if variant >= 3:
        def outer(a: Any, b: Any) -> Any:           # nested call
            return trace_call(f, a, b) * 2
        outs["nested"] = trace_call(outer, x, y)
    if variant >= 4:
        # ONE inner definition object called from two different bodies and from the top
        # level; a body with two results that share one nested call
        def inner(a: Any) -> Any:
            return a * a + 1
        seed_call = trace_call(inner, x)
        gdef = seed_call._container.function        # the FunctionDefinition object

        def call_inner(a: Any) -> Any:
            return gdef(in__pt_0=a)

        def f1(a: Any) -> Any:
            return call_inner(a) * 3

        def f2(a: Any) -> Any:
            t = call_inner(a)
            return {"u": t + 1, "v": 3 * t}
        d2 = trace_call(f2, x)
        outs["f1"] = trace_call(f1, x)
        outs["f2u"] = d2["u"]
        outs["f2v"] = d2["v"]
        if rng.random() < 0.5:
            outs["top"] = seed_call + call_inner(x + 1)
    # which function a walk enters FIRST matters to mappers that share state between callee
    # mappers: random order of the outputs, in insertion order and in name order
    items = list(outs.items())
    rng.shuffle(items)
    letters = rng.sample("abcdefghijklmnopqrstuvwxyz", len(items))
    return pt.make_dict_of_named_arrays({f"{l_}_{k}": v for l_, (k, v) in zip(letters, items)})


def build_dist(rng: random.Random) -> Any:
    import pytato as pt
    from vf.vtags import VTag
    n = rng.randrange(2, 5)
    x = pt.make_placeholder("x", (n, 2), np.float64)
    tags = [rng.choice([0, 1, "t", ("a", 1), frozenset({1, 2})]) for _ in range(3)]
    r0 = pt.make_distributed_recv(src_rank=1, comm_tag=tags[0], shape=(n, 2), dtype=np.float64)
    r1 = pt.make_distributed_recv(src_rank=2, comm_tag=tags[1], shape=(2,), dtype=np.float64,
                                  tags=frozenset({VTag(3)}))
    y = x * 2 + r0
    y = pt.staple_distributed_send(y + r1, dest_rank=1, comm_tag=tags[2], stapled_to=y)
    z = pt.staple_distributed_send(pt.sum(y), dest_rank=2, comm_tag=("z", 0), stapled_to=y - 1,
                                   send_tags=frozenset({VTag(5)}))
    outs = {"out": z, "other": r0 + 1}
    if rng.random() < 0.5:
        # a receive whose SHAPE holds arrays (a size parameter reachable through it only)
        mm = pt.make_size_param("mm")
        rs = pt.make_distributed_recv(src_rank=1, comm_tag=("sym", 0), shape=(mm, 2),
                                      dtype=np.float64)
        outs["symrecv"] = rs * 2
    return pt.make_dict_of_named_arrays(outs)


def build_ladder(depth: int, rng: random.Random) -> Any:
    """Ladders whose path count is 2**depth; the two rails reconverge through a chosen kind
    of edge (operand, index array, stack/concatenate operand, einsum operand, where
    condition, shape component, call binding, CSR part)."""
    import pytato as pt
    kind = rng.choice(["operand", "operand", "index", "stack", "einsum", "where", "call", "csr",
                       "roll"])
    if kind == "operand":
        x = pt.make_placeholder("x", (3,), np.float64)
        y = pt.make_placeholder("y", (3,), np.float64)
        a, b = x, y
        for i in range(depth):
            a, b = (a + b, a * b) if i % 2 == 0 else (a - b, a + 2 * b)
        return pt.make_dict_of_named_arrays({"out": a + b})
    if kind == "index":
        x = pt.make_placeholder("x", (4,), np.int64)
        for _ in range(depth):
            x = x[x % 4]                      # array edge and index edge lead to x
        return pt.make_dict_of_named_arrays({"out": x})
    x = pt.make_placeholder("x", (3,), np.float64)
    depth = min(depth, 30)
    if kind == "csr":
        from pytato.array import make_csr_matrix
        ev = pt.make_placeholder("ev", (3,), np.float64)
        for _ in range(min(depth, 12)):
            m = make_csr_matrix((3, 3), x * ev, pt.make_placeholder("ci", (3,), np.int64),
                                pt.make_placeholder("rs", (4,), np.int64))
            x = m @ x                          # CSR part edge and operand edge lead to x
        return pt.make_dict_of_named_arrays({"out": x})
    if kind in ("stack", "einsum"):
        # .dtype / .shape of stack, concatenate and einsum nodes are recomputed from the
        # operands on every access (no memo): 2**depth on these ladders, in ANY code that
        # reads them -- an observation outside C13 (DESIGN.md 10.7); keep them shallow
        depth = min(depth, 12)
    for i in range(depth):
        if kind == "stack":
            x = (pt.stack([x, x]) if i % 2 == 0 else pt.concatenate([x, x]).reshape(2, 3))[0]
        elif kind == "einsum":
            x = pt.einsum("i,i->i", x, x)
        elif kind == "where":
            x = pt.where(pt.greater(x, 0), x, -x)
        elif kind == "roll":
            x = pt.roll(x, 1) + x[::-1]
        elif kind == "call":
            def f(a: Any, b: Any) -> Any:
                return a + 2 * b
            if i >= 6:
                x = x + x
            else:
                x = pt.trace_call(f, x, x)
    return pt.make_dict_of_named_arrays({"out": x})


def build_edges(rng: random.Random) -> Any:
    """One node ("shared") reachable through every kind of edge."""
    import pytato as pt
    from pytato.function import trace_call
    n = pt.make_size_param("n")
    shared_idx = pt.make_placeholder("idx", (4,), np.int64)           # used as index array
    base = pt.make_placeholder("base", (5, 4), np.float64)
    shared = pt.make_placeholder("shared", (4,), np.float64) * 2       # the shared node
    out: dict[str, Any] = {}
    out["operand"] = shared + 1
    out["index"] = base[shared_idx % 5, :] + shared                    # array index edge
    sym = pt.make_placeholder("sym", (n, 4), np.float64)               # shape edge (n)
    out["shape"] = sym + shared + n
    ev = shared
    ec = shared_idx % 4
    rs = pt.make_placeholder("rs", (5,), np.int64)
    m = pt.make_csr_matrix((4, 4), ev, ec, rs)                         # CSR part edges
    out["csr"] = m @ shared
    out["send"] = pt.staple_distributed_send(shared, dest_rank=1, comm_tag="e",
                                             stapled_to=shared * 3)    # send payload edge

    def f(a: Any) -> Any:
        return a + 1
    out["call"] = trace_call(f, shared)                                # call binding edge
    out["stack"] = pt.stack([shared, shared], axis=0)
    out["einsum"] = pt.einsum("i,i->", shared, shared)
    out["reshape"] = shared.reshape(2, 2)
    if rng.random() < 0.5:
        from vf.gen.progspec import lpk
        from pytato.loopy import call_loopy
        x64 = pt.make_placeholder("x64", (4,), np.float64)
        out["loopy"] = call_loopy(lpk()["axpy"], {"a": 2.0, "x": shared, "y": x64})["out"]
    return pt.make_dict_of_named_arrays(out)


def build_csr(rng: random.Random) -> Any:
    import pytato as pt
    nr, nc = rng.randrange(1, 5), rng.randrange(1, 5)
    nnz = rng.randrange(0, 6)
    ev = pt.make_placeholder("ev", (nnz,), np.float64)
    ec = pt.make_placeholder("ec", (nnz,), np.int32)
    rs = pt.make_placeholder("rs", (nr + 1,), np.int32)
    x = pt.make_placeholder("x", (nc, 2), np.float64)
    m = pt.make_csr_matrix((nr, nc), ev, ec, rs)
    r = (m @ x)
    return pt.make_dict_of_named_arrays({"r": r, "s": pt.sum(r) + pt.sum(ev)})


def build_misc(rng: random.Random, dw: bool = False) -> Any:
    import pytato as pt
    from vf.vtags import VAxisTag, VNote, VTag
    x = pt.make_placeholder("x", (3, 4), np.float64, tags=frozenset({VTag(1)}))
    y = pt.make_placeholder("y", (4,), np.float32)
    a = pt.roll(x, rng.randrange(1, 3), axis=1)
    # several tags of ONE class with string fields on a node and on an axis
    a = a.tagged(VNote("flux")).tagged(VNote("volume")).tagged(VNote("surface"))
    a = a.with_tagged_axis(1, VNote("radial")).with_tagged_axis(1, VNote("azimuthal"))
    b = x.T.reshape(2, 6, order=rng.choice(["C", "F"]))
    c = pt.concatenate([x, x * 2], axis=0)[1:5:2, ::-1]
    d = pt.stack([y, y + 1]).with_tagged_axis(0, VAxisTag(2))
    e = pt.einsum("ij,j->i", x, y).tagged(VTag(7))
    f = pt.where(x > 0, x, y) if hasattr(x, "__gt__") and False else pt.where(pt.greater(x, 0), x, y)
    g = pt.expand_dims(y, 0) + pt.zeros((2, 4)) + pt.arange(4, dtype=np.dtype("float64"))
    h = x[pt.make_placeholder("i", (2,), np.int32), 1:3]
    k = pt.pad(y, 1) + pt.full(6, 2.0)
    outs = {"a": a, "b": b, "c": c, "d": d, "e": e, "f": f, "g": g,
            "h": h, "k": k, "m": pt.amax(x, axis=0) @ y}
    if rng.random() < 0.6:
        # a named array of a dictionary used as an operand of further nodes, a
        # non-contiguous advanced index
        inner = pt.make_dict_of_named_arrays({"p": x + 1, "q": y * 2})
        i1 = pt.make_placeholder("i1", (2,), np.int64)
        outs["n"] = inner["p"] * 2 + inner["q"]
        if rng.random() < 0.7:
            # named arrays carrying tags / axis tags of their own (distinct from the entry
            # the container hands out), as operands and as an output
            outs["nt"] = inner["p"].tagged(VTag(9)) - inner["q"].with_tagged_axis(0, VAxisTag(4))
            outs["nt2"] = inner["q"].tagged(VTag(11))
        z = pt.make_placeholder("z", (3, 4, 5), np.float64)
        outs["r"] = z[i1, :, i1]
        if dw:
            # wrapped data (compares by identity: only where the check can cope), two
            # wrappers over one buffer
            buf = np.arange(12.0).reshape(3, 4)
            dw1 = pt.make_data_wrapper(buf)
            dw2 = pt.make_data_wrapper(buf, tags=frozenset({VTag(3)}))
            outs["n2"] = inner["p"] * dw1
            # a size parameter reachable ONLY through the shape of wrapped data
            nn = pt.make_size_param("nn")
            outs["dwsym"] = pt.roll(pt.make_data_wrapper(np.arange(6.0), shape=(nn,)), 1)
            outs["o"] = dw2[i1, :, ][:, ::2] + pt.make_data_wrapper(np.ones(2))
    return pt.make_dict_of_named_arrays(outs)
