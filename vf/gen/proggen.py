"""NumPy-driven random program generator (DESIGN.md §2.1).

Grows a DAG by choosing an op and operands among existing nodes (deliberately
re-using nodes => arbitrary sharing), applies it to the shadow values of two
input sets, and keeps it only if NumPy accepts it and the documented fragment
(``FRAGMENT`` below, each restriction with its citation) admits it.
"""
from __future__ import annotations

import random
from typing import Any

import numpy as np

from vf.gen import progspec as ps
from vf.gen import values

# Documented pytato restrictions the generator respects (op -> citation).  Derived
# from docstrings / error messages, never from what the tree happens to accept.
FRAGMENT = {
    "astype float->int": "Array.astype: NotImplementedError('numpy-like overflow behavior in float-to-int')",
    "astype complex->real": "Array.astype: NotImplementedError('complex-to-real casts fail in loopy')",
    "math funcs int operand": "cmath._apply_elem_wise_func: ValueError('only floating-point or complex arguments supported')",
    "math funcs broadcasting": "cmath._apply_elem_wise_func: NotImplementedError('broadcasting in function application')",
    "maximum/minimum int x float": "array.maximum -> cmath.isnan on every operand: ValueError('only floating-point or complex arguments supported')",
    "bool subtract": "Array.__sub__: TypeError('numpy boolean subtract ... is not supported') (NumPy raises as well)",
    "reduction negative axis": "reductions._normalize_reduction_axes: ValueError('... is out of bounds ...') for axis < 0",
    "amax/amin empty": "reductions: ValueError('zero-size reduction operation with no supplied initial value')",
    "einsum implicit/ellipsis": "array.einsum: NotImplementedError('Implicit mode not supported' / 'Broadcasting in einsums not supported')",
    "roll multi-axis": "array.roll: NotImplementedError('shifting along more than one dimension is unsupported')",
    "newaxis index": "utils._index_into: NotImplementedError('newaxis is not supported')",
    "bool mask index": "utils._index_into: IndexError('only integer arrays are valid array indices')",
    "index arrays upper out-of-range": "Array.__getitem__ docstring: out-of-bounds accesses via Array indices are undefined behavior",
    "float // and % (C runner only)": "loopy C target: NotImplementedError('remainder and floordiv for floating-point types') -- a loopy limitation, exercised by the NumPy target and the interpreters only",
    "pad modes": "pad.pad: NotImplementedError(f\"Mode: '{mode}'\") for anything but 'constant'",
    "full order": "array.full: ValueError('Only C-ordered arrays supported for now.')",
    "arange needs dtype": "array.arange: TypeError('arange requires a dtype argument')",
}

MAX_NDIM = 4
MAX_LEN = 5
MAX_SIZE = 400
DT6 = values.DTYPES6

PROFILES: dict[str, dict[str, float]] = {
    "mixed": dict(binop=5, cmp=1.5, logical=1, where=1.5, minmax=1, unary=1, math=1.5,
                  astype=1, reduce=3, einsum=1.5, matmul=1, join=1.5, remap=3, index=3,
                  adv_index=1.5, csr=0.4, create=1, like=0.4, loopy=0.4),
    "index": dict(binop=2, cmp=0.5, where=1, reduce=1, join=1, remap=3, index=6, adv_index=4,
                  create=0.5, astype=0.5),
    "reduce": dict(binop=3, where=1, math=1, reduce=7, einsum=2, matmul=1.5, remap=1.5,
                   index=1, astype=0.5, minmax=0.5, csr=0.5),
    "einsum": dict(binop=3, einsum=6, matmul=3, remap=2, reduce=1, index=1, astype=0.5, csr=1),
    "zero": dict(binop=3, cmp=1, where=1, reduce=2, join=2, remap=3, index=3, adv_index=1,
                 einsum=1, create=1.5, astype=0.5),
    "nan": dict(binop=5, cmp=2, where=2, minmax=3, math=0.5, reduce=1.5, logical=1, unary=1,
                remap=1, index=1),
    # C06: trees of + - * / (arrays and scalars in either position), powers, math functions,
    # indexing, reshapes/transposes/unit-axis broadcasts feeding 1..n einsums/matmuls
    "distrib": dict(binop=8, unary=0.6, math=1.2, einsum=5, matmul=3, remap=2.5, index=1.2),
    "elementwise": dict(binop=6, cmp=2, logical=1.5, where=2, minmax=1.5, unary=1.5, math=2.5,
                        astype=1.5, like=0.5, create=0.5),
}


class Reject(Exception):
    pass


class Gen:
    def __init__(self, seed: int, profile: str = "mixed", n_nodes: int = 10,
                 opts: dict[str, Any] | None = None):
        self.rng = random.Random(seed)
        self.profile = profile
        self.weights = PROFILES[profile]
        self.opts = opts or {}
        self.nan = profile == "nan"
        self.zero = profile == "zero"
        self.spec: dict[str, Any] = {"inputs": [], "nodes": [], "outputs": {},
                                     "vseed": seed & 0xFFFFFFFF, "profile": profile}
        if self.nan:
            self.spec["nan"] = True
        self.vals: list[dict[int, Any]] = [{}, {}]
        self.ids: list[int] = []          # array-valued ids (inputs + nodes)
        self.used: set[int] = set()
        self.next_id = 0
        self.n_nodes = n_nodes
        self.mca = ps.MCA(None)
        self.allow_float_divmod = bool(self.opts.get("float_divmod"))
        self.no_loopy = bool(self.opts.get("no_loopy"))
        self.no_csr = bool(self.opts.get("no_csr"))
        self.dw_prob = float(self.opts.get("dw_prob", 0.2))

    # -- helpers
    def v(self, i: int, s: int = 0) -> np.ndarray:
        return np.asarray(self.vals[s][i])

    def shape(self, i: int) -> tuple[int, ...]:
        return self.v(i).shape

    def dtype(self, i: int) -> np.dtype[Any]:
        return self.v(i).dtype

    def rand_len(self) -> int:
        if self.zero and self.rng.random() < 0.25:
            return 0
        r = self.rng.random()
        if r < 0.04:
            return 0
        if r < 0.2:
            return 1
        return self.rng.randrange(2, MAX_LEN + 1)

    def rand_shape(self, ndim: int | None = None) -> tuple[int, ...]:
        if ndim is None:
            ndim = self.rng.choice([0, 1, 1, 2, 2, 2, 3, 3, 4])
        while True:
            shp = tuple(self.rand_len() for _ in range(ndim))
            if int(np.prod(shp, dtype=np.int64)) <= MAX_SIZE:
                return shp

    def rand_dtype(self, kinds: str = "biufc") -> str:
        if self.nan and kinds != "c":
            # complex arithmetic on inf/NaN differs between C99 Annex G and NumPy and is
            # not part of the NaN-aware fragment
            kinds = kinds.replace("c", "") or kinds
        cands = [d for d in DT6 if np.dtype(d).kind in kinds]
        w = {"bool": 0.6, "int32": 1, "int64": 1, "float32": 1.2, "float64": 2.5,
             "complex128": 0.8}
        return self.rng.choices(cands, [w[d] for d in cands])[0]

    def new_input(self, shape: tuple[int, ...], dtype: str, pool: str = "dyadic",
                  data: Any = None, kind: str | None = None) -> int:
        if self.nan and np.dtype(dtype).kind == "c":
            raise Reject("complex values are outside the NaN-aware fragment")
        i = self.next_id
        self.next_id += 1
        if kind is None:
            kind = "dw" if self.rng.random() < self.dw_prob else "ph"
        inp: dict[str, Any] = {"id": i, "kind": kind, "shape": list(shape), "dtype": dtype,
                               "pool": pool}
        if kind == "ph":
            inp["name"] = f"x{i}"
        if data is not None:
            inp["data"] = np.asarray(data).reshape(-1).tolist()
        self.spec["inputs"].append(inp)
        iv0 = ps.input_values({"inputs": [inp], "vseed": self.spec["vseed"],
                               "nan": self.spec.get("nan")}, 0)[i]
        iv1 = ps.input_values({"inputs": [inp], "vseed": self.spec["vseed"],
                               "nan": self.spec.get("nan")}, 1)[i]
        self.vals[0][i] = iv0
        self.vals[1][i] = iv1
        self.ids.append(i)
        return i

    def pick(self, pred: Any = None, prefer_unused: bool = True) -> int | None:
        cands = [i for i in self.ids if pred is None or pred(i)]
        if not cands:
            return None
        # bias: recent nodes (depth) and unused nodes (no dead code), but any node may
        # be re-used (sharing)
        w = []
        for i in cands:
            x = 1.0 + 3.0 * (i / max(self.next_id, 1))
            if prefer_unused and i not in self.used:
                x *= 2.5
            w.append(x)
        return self.rng.choices(cands, w)[0]

    def pick_or_new(self, pred: Any, shape: tuple[int, ...] | None = None,
                    dtype: str | None = None, pool: str = "dyadic", p_new: float = 0.15) -> int:
        if self.rng.random() >= p_new:
            i = self.pick(pred)
            if i is not None:
                return i
        return self.new_input(shape if shape is not None else self.rand_shape(),
                              dtype or self.rand_dtype(), pool)

    def rand_scalar(self, kind: str, pool: str = "dyadic", np_dtype: str | None = None) -> list[Any]:
        v = values.py_scalar(self.rng, kind, pool)
        if np_dtype is not None:
            dt = np.dtype(np_dtype)
            v = dt.type(v)
        return ps.enc_scalar(v)

    def bcast_partner_shape(self, shp: tuple[int, ...]) -> tuple[int, ...]:
        r = self.rng.random()
        if r < 0.45 or not shp:
            return shp
        if r < 0.6:
            return ()
        if r < 0.8:
            k = self.rng.randrange(0, len(shp))
            return shp[k:]
        out = tuple(1 if self.rng.random() < 0.5 else s for s in shp)
        if self.rng.random() < 0.3 and len(out) < MAX_NDIM:
            out = (self.rng.randrange(1, 4),) + out
        return out

    def compatible(self, shp: tuple[int, ...]) -> Any:
        def pred(i: int) -> bool:
            try:
                r = np.broadcast_shapes(shp, self.shape(i))
            except ValueError:
                return False
            return len(r) <= MAX_NDIM and int(np.prod(r, dtype=np.int64)) <= MAX_SIZE
        return pred

    # -- adding a node
    def add(self, op: str, args: list[Any], params: dict[str, Any] | None = None) -> int:
        params = params or {}
        res = []
        for s in (0, 1):
            a = [self.vals[s][x] if ps.is_ref(x) else ps.dec_scalar(x) for x in args]
            try:
                with np.errstate(all="ignore"):
                    r = ps.np_apply(op, a, params, self.mca)
            except Exception as e:  # noqa: BLE001 -- NumPy rejects: not a valid program
                raise Reject(f"numpy: {type(e).__name__}") from e
            res.append(r)
        if not isinstance(res[0], dict):
            for r in res:
                self.validate(np.asarray(r), op)
        i = self.next_id
        self.next_id += 1
        self.spec["nodes"].append({"id": i, "op": op, "args": args, "params": params})
        self.vals[0][i], self.vals[1][i] = res
        if not isinstance(res[0], dict):
            self.ids.append(i)
        for x in args:
            if ps.is_ref(x):
                self.used.add(x)
        return i

    def validate(self, r: np.ndarray, op: str) -> None:
        if r.dtype.name not in DT6:
            raise Reject(f"dtype {r.dtype}")
        if self.nan and r.dtype.kind == "c":
            raise Reject("complex values are outside the NaN-aware fragment")
        if r.ndim > MAX_NDIM or r.size > MAX_SIZE or any(s > 12 for s in r.shape):
            raise Reject("too big")
        if r.dtype.kind in "iu":
            if r.size and np.max(np.abs(r.astype(np.int64))) >= 2 ** 20:
                raise Reject("int magnitude")
        elif r.dtype.kind in "fc":
            fin = np.isfinite(r)
            if not self.nan and not fin.all():
                raise Reject("non-finite")
            a = np.abs(r[fin]) if r.size else r
            if a.size and (np.max(a) > 1e5):
                raise Reject("float magnitude")
            if a.size and r.dtype == np.float32 and np.any((a > 0) & (a < 1e-30)):
                raise Reject("float32 denormal range")

    def allvals(self, i: int) -> np.ndarray:
        return np.concatenate([self.v(i, 0).reshape(-1), self.v(i, 1).reshape(-1)])

    # -- op families --------------------------------------------------------
    def f_binop(self) -> int:
        op = self.rng.choices(
            ["add", "sub", "mul", "truediv", "floordiv", "mod", "pow", "and", "or", "xor"],
            [4, 3, 4, 2, 1.2, 1.2, 1.2, 0.7, 0.7, 0.7] if self.profile != "distrib"
            else [4, 4, 4, 3.5, 0, 0, 1, 0, 0, 0])[0]
        kinds = "biufc"
        if op in ("and", "or", "xor"):
            kinds = "bi"
        elif op in ("floordiv", "mod"):
            kinds = "if" if self.allow_float_divmod else "i"
        elif op in ("truediv", "pow"):
            kinds = "ifc"
        x = self.pick_or_new(lambda i: self.dtype(i).kind in kinds, dtype=self.rand_dtype(kinds))
        if self.dtype(x).kind not in kinds:
            raise Reject("kind")
        xs = self.shape(x)
        r = self.rng.random()
        if op == "pow":
            # documented scope keeps exponents small; base sign handled by shadow check
            choice = self.rng.random()
            if choice < 0.6:
                e = self.rng.choice([2, 3, 2.0, 0, 1]) if self.dtype(x).kind != "i" \
                    else self.rng.choice([2, 3, 0, 1])
                return self.add("pow", [x, ps.enc_scalar(e)])
            if choice < 0.8 and self.dtype(x).kind == "f":
                if np.all(self.allvals(x) > 0.2):
                    return self.add("pow", [x, ps.enc_scalar(0.5)])
                raise Reject("pow base")
            if np.all(np.abs(self.allvals(x)) <= 4) and self.dtype(x).kind in "if":
                if self.dtype(x).kind == "i" and np.any(self.allvals(x) < 0):
                    raise Reject("pow negative int exponent")
                bases: list[Any] = [2, 2.0, 0.5]
                if self.dtype(x).kind == "i":
                    # negative bases only with integer exponents (NumPy: nan otherwise)
                    bases += [-2, -2.0, -0.5, -3]
                return self.add("pow", [ps.enc_scalar(self.rng.choice(bases)), x])
            raise Reject("pow")
        divisor = op in ("truediv", "floordiv", "mod")
        if r < 0.6:
            pool = "nonzero" if divisor else "dyadic"
            ykinds = kinds
            if op == "sub" and self.dtype(x).kind == "b":
                ykinds = "iufc"

            def pred(i: int) -> bool:
                if self.dtype(i).kind not in ykinds or not self.compatible(xs)(i):
                    return False
                if divisor:
                    a = np.abs(self.allvals(i))
                    return bool(a.size == 0 or a.min() >= (1 if self.dtype(i).kind == "i"
                                                          else 0.25))
                return True
            y = self.pick_or_new(pred, shape=self.bcast_partner_shape(xs),
                                 dtype=self.rand_dtype(ykinds), pool=pool,
                                 p_new=0.35 if divisor else 0.15)
            if not pred(y):
                raise Reject("partner")
            args = [x, y]
            if self.rng.random() < 0.3 and not divisor:
                args = [y, x]
            return self.add(op, args)
        # scalar operand
        k = self.dtype(x).kind
        skind = {"b": "bool", "i": "int", "f": "float", "c": "complex"}[k]
        if skind == "bool" and self.rng.random() < 0.8:
            skind = "int"          # bool scalars stay in scope, at low frequency
        if op in ("and", "or", "xor"):
            skind = "int" if (k == "i" and self.rng.random() < 0.85) else \
                ("bool" if self.rng.random() < 0.3 else "int")
            if k == "b" and skind == "int":
                # bool array with int scalar is fine for NumPy (promotes)
                pass
        elif self.rng.random() < 0.3 and op not in ("floordiv", "mod"):
            skind = self.rng.choice(["int", "float"]) if k != "c" else "complex"
        if op in ("floordiv", "mod") and skind == "float" and not self.allow_float_divmod:
            skind = "int"
        if op == "sub" and k == "b" and skind == "bool":
            skind = "int"
        pool = "nonzero" if divisor else "dyadic"
        npd = None
        if r > 0.85:
            npd = {"bool": "bool", "int": self.rng.choice(["int32", "int64"]),
                   "float": self.rng.choice(["float32", "float64"]),
                   "complex": "complex128"}[skind]
        sc = self.rand_scalar(skind, pool, npd)
        scalar_left = self.rng.random() < 0.35
        if divisor and scalar_left:
            # scalar / x : x must be non-zero
            a = np.abs(self.allvals(x))
            if a.size and a.min() < (1 if k == "i" else 0.25):
                scalar_left = False
        return self.add(op, [sc, x] if scalar_left else [x, sc])

    def f_cmp(self) -> int:
        op = self.rng.choice(sorted(ps.CMP_OPS))
        kinds = "biufc" if op in ("equal", "not_equal") else "biuf"
        x = self.pick_or_new(lambda i: self.dtype(i).kind in kinds, dtype=self.rand_dtype(kinds))
        if self.dtype(x).kind not in kinds:
            raise Reject("kind")
        if self.rng.random() < 0.65:
            y = self.pick_or_new(lambda i: self.dtype(i).kind in kinds
                                 and self.compatible(self.shape(x))(i),
                                 shape=self.bcast_partner_shape(self.shape(x)),
                                 dtype=self.rand_dtype(kinds))
            if self.dtype(y).kind not in kinds or not self.compatible(self.shape(x))(y):
                raise Reject("partner")
            return self.add(op, [x, y])
        k = self.dtype(x).kind
        sk = {"b": "bool", "i": "int", "f": "float", "c": "complex"}[k]
        if sk == "bool" and self.rng.random() < 0.8:
            sk = "int"
        sc = self.rand_scalar(sk)
        return self.add(op, [x, sc] if self.rng.random() < 0.7 else [sc, x])

    def f_logical(self) -> int:
        if self.rng.random() < 0.3:
            x = self.pick_or_new(lambda i: self.dtype(i).kind in "bi")
            return self.add("logical_not", [x])
        op = self.rng.choice(["logical_and", "logical_or"])
        x = self.pick_or_new(lambda i: self.dtype(i).kind in "bif", dtype=self.rand_dtype("bi"))
        y = self.pick_or_new(lambda i: self.dtype(i).kind in "bif"
                             and self.compatible(self.shape(x))(i),
                             shape=self.bcast_partner_shape(self.shape(x)),
                             dtype=self.rand_dtype("bi"))
        if not self.compatible(self.shape(x))(y):
            raise Reject("partner")
        return self.add(op, [x, y])

    def f_where(self) -> int:
        c = self.pick_or_new(lambda i: self.dtype(i).kind in "bi", dtype="bool", pool="unit")
        cs = self.shape(c)
        x = self.pick_or_new(self.compatible(cs), shape=self.bcast_partner_shape(cs))
        if not self.compatible(cs)(x):
            raise Reject("x")
        try:
            xs = np.broadcast_shapes(cs, self.shape(x))
        except ValueError as e:
            raise Reject("bc") from e
        if self.rng.random() < 0.7:
            y = self.pick_or_new(self.compatible(xs), shape=self.bcast_partner_shape(xs),
                                 dtype=self.dtype(x).name)
            if not self.compatible(xs)(y):
                raise Reject("y")
            yy: Any = y
        else:
            k = self.dtype(x).kind
            yy = self.rand_scalar({"b": "bool", "i": "int", "f": "float", "c": "complex"}[k])
        args = [c, x, yy]
        if self.rng.random() < 0.25 and ps.is_ref(yy):
            args = [c, yy, x]
        return self.add("where", args)

    def f_minmax(self) -> int:
        op = self.rng.choice(["maximum", "minimum"])
        x = self.pick_or_new(lambda i: self.dtype(i).kind in "if", dtype=self.rand_dtype("if"))
        k = self.dtype(x).kind
        if k not in "if":
            raise Reject("kind")
        if self.rng.random() < 0.75:
            y = self.pick_or_new(lambda i: self.dtype(i).kind == k
                                 and self.compatible(self.shape(x))(i),
                                 shape=self.bcast_partner_shape(self.shape(x)),
                                 dtype=self.rand_dtype(k))
            if self.dtype(y).kind != k or not self.compatible(self.shape(x))(y):
                raise Reject("partner")
            return self.add(op, [x, y])
        sc = self.rand_scalar("int" if k == "i" else "float")
        return self.add(op, [x, sc] if self.rng.random() < 0.7 else [sc, x])

    def f_unary(self) -> int:
        op = self.rng.choice(["neg", "neg", "abs", "conj", "real", "imag"])
        kinds = {"neg": "ifc", "abs": "fc", "conj": "c", "real": "c", "imag": "c"}[op]
        x = self.pick_or_new(lambda i: self.dtype(i).kind in kinds, dtype=self.rand_dtype(kinds))
        if self.dtype(x).kind not in kinds:
            raise Reject("kind")
        return self.add(op, [x])

    def f_math(self) -> int:
        fn = self.rng.choice(["sqrt", "sin", "cos", "tan", "arcsin", "arccos", "arctan", "sinh",
                              "cosh", "tanh", "exp", "log", "log10", "arctan2", "isnan"])
        if fn == "isnan":
            x = self.pick_or_new(lambda i: self.dtype(i).kind == "f", dtype=self.rand_dtype("f"))
            if self.dtype(x).kind != "f":
                raise Reject("kind")
            return self.add("isnan", [x])
        if fn == "arctan2":
            x = self.pick_or_new(lambda i: self.dtype(i).kind == "f"
                                 and np.all(np.abs(self.allvals(i)) >= 0.25),
                                 dtype=self.rand_dtype("f"), pool="nonzero", p_new=0.4)
            y = self.pick_or_new(lambda i: self.dtype(i).kind == "f"
                                 and self.shape(i) == self.shape(x)
                                 and np.all(np.abs(self.allvals(i)) >= 0.25),
                                 shape=self.shape(x), dtype=self.dtype(x).name, pool="nonzero",
                                 p_new=0.5)
            if self.shape(y) != self.shape(x) or self.dtype(x).kind != "f" \
                    or self.dtype(y).kind != "f":
                raise Reject("arctan2 operands")
            return self.add("arctan2", [x, y])
        pool = {"sqrt": "positive", "log": "positive", "log10": "positive",
                "arcsin": "unit", "arccos": "unit"}.get(fn, "dyadic")
        kinds = "f" if fn in ("arcsin", "arccos", "arctan", "tan", "log10", "tanh", "sqrt",
                              "log") else "fc"

        def ok(i: int) -> bool:
            if self.dtype(i).kind not in kinds:
                return False
            a = self.allvals(i)
            if self.nan:
                return True
            if a.size == 0:
                return True
            if fn in ("sqrt", "log", "log10"):
                return bool(np.all(a.real >= 0.25))
            if fn in ("arcsin", "arccos"):
                return bool(np.all(np.abs(a) <= 0.9))
            if fn == "tan":
                return bool(np.all(np.abs(a) <= 1.2))
            if fn in ("exp", "sinh", "cosh"):
                return bool(np.all(np.abs(a) <= 6))
            return bool(np.all(np.abs(a) <= 20))
        x = self.pick_or_new(ok, dtype=self.rand_dtype(kinds), pool=pool, p_new=0.35)
        if not ok(x):
            raise Reject("domain")
        return self.add(fn, [x])

    def f_astype(self) -> int:
        x = self.pick_or_new(None)
        k = self.dtype(x).kind
        tgt = [d for d in DT6 if d != "bool" and d != self.dtype(x).name
               and not (k in "fc" and np.dtype(d).kind in "iu")
               and not (k == "c" and np.dtype(d).kind in "iuf")]
        if not tgt:
            raise Reject("no target")
        return self.add("astype", [x], {"dtype": self.rng.choice(tgt)})

    def f_reduce(self) -> int:
        op = self.rng.choices(["sum", "prod", "amax", "amin", "all", "any"],
                              [4, 1.2, 1.5, 1.5, 0.7, 0.7])[0]
        if self.nan and op in ("prod", "amax", "amin"):
            # NaN-aware fragment = elementwise arithmetic, comparisons, where,
            # maximum/minimum, isnan, sums (pytato promises NaN propagation only for
            # maximum/minimum; C fmax/fmin drop NaNs in reductions)
            op = "sum"
        kinds = {"sum": "biufc", "prod": "iufc", "amax": "if", "amin": "if",
                 "all": "bif", "any": "bif"}[op]
        min_nd = 0 if self.rng.random() < 0.08 else 1     # (0-d operands: nothing to reduce)
        x = self.pick_or_new(lambda i: self.dtype(i).kind in kinds and self.v(i).ndim >= min_nd,
                             shape=self.rand_shape(self.rng.choice([1, 2, 2, 3, 4])),
                             dtype=self.rand_dtype(kinds),
                             pool="pow2" if op == "prod" else "dyadic")
        if self.dtype(x).kind not in kinds:
            raise Reject("kind")
        nd = self.v(x).ndim
        if nd == 0 or self.rng.random() < 0.2:
            ax: Any = None
        else:
            # (the empty axis tuple is a reduction too: the identity)
            k = self.rng.randrange(1, nd + 1) if self.rng.random() >= 0.06 else 0
            ax = sorted(self.rng.sample(range(nd), k))
            if self.rng.random() < 0.3:
                self.rng.shuffle(ax)
        red_axes = range(nd) if ax is None else ax
        if op in ("amax", "amin") and any(self.shape(x)[a] == 0 for a in red_axes):
            raise Reject("empty max/min")   # FRAGMENT['amax/amin empty']
        if ax is not None and len(ax) == 1 and self.rng.random() < 0.5:
            pass
        return self.add(op, [x], {"axis": ax})

    def f_einsum(self) -> int:
        nops = self.rng.choice([1, 2, 2, 3])
        letters = "ijklmn"
        lens: dict[str, int] = {}
        subs: list[str] = []
        args: list[int] = []
        kinds = "iufc"
        for k in range(nops):
            x = self.pick(lambda i: self.dtype(i).kind in kinds and 1 <= self.v(i).ndim <= 3)
            if x is None or self.rng.random() < 0.2:
                x = self.new_input(self.rand_shape(self.rng.choice([1, 2, 2, 3])),
                                   self.rand_dtype("ifc"), "unit")
            sub = ""
            for l in self.shape(x):
                # unit-axis broadcasting only ACROSS operands (NumPy's rule); a letter
                # repeated inside one operand needs identical lengths
                axlen = dict(zip(sub, self.shape(x)))
                cands = [c for c in lens
                         if (lens[c] == l or l == 1 or lens[c] == 1)
                         and (c not in sub or axlen[c] == l)]
                if cands and self.rng.random() < 0.6:
                    c = self.rng.choice(cands)
                    if lens[c] == 1:
                        lens[c] = l
                elif len(lens) < len(letters):
                    c = letters[len(lens)]
                    lens[c] = l
                else:
                    raise Reject("letters")
                sub += c
            subs.append(sub)
            args.append(x)
        used = sorted(set("".join(subs)))
        out = [c for c in used if self.rng.random() < 0.5]
        self.rng.shuffle(out)
        out = out[:MAX_NDIM]
        # reduction over an empty axis is fine for sums
        spec = ",".join(subs) + "->" + "".join(out)
        return self.add("einsum", list(args), {"spec": spec})

    def f_matmul(self) -> int:
        op = self.rng.choice(["matmul", "matmul", "dot", "vdot"])
        maxnd = 4 if op == "matmul" else 3      # 4-d @ 3-d: batch axes of unequal rank
        x = self.pick(lambda i: self.dtype(i).kind in "iufc" and 1 <= self.v(i).ndim <= maxnd)
        if x is None:
            x = self.new_input(self.rand_shape(self.rng.choice([1, 2])), self.rand_dtype("ifc"),
                               "unit")
        xs = self.shape(x)
        if op == "vdot":
            y = self.pick_or_new(lambda i: self.dtype(i).kind in "iufc"
                                 and self.v(i).size == self.v(x).size and self.v(i).ndim >= 1,
                                 shape=(int(np.prod(xs)),), dtype=self.rand_dtype("ifc"),
                                 pool="unit", p_new=0.5)
            return self.add("vdot", [x, y])
        # partner with matching contraction length
        k = xs[-1]
        want_nd = self.rng.choice([1, 2, 2, 3]) if op == "matmul" else self.rng.choice([1, 2])

        def pred(i: int) -> bool:
            s = self.shape(i)
            if self.dtype(i).kind not in "iufc" or not (1 <= len(s) <= 3):
                return False
            return (s[0] == k) if len(s) == 1 else (s[-2] == k)
        if want_nd == 1:
            shp: tuple[int, ...] = (k,)
        elif want_nd == 2:
            shp = (k, self.rand_len())
        else:
            lead = xs[0] if len(xs) == 3 else (xs[1] if len(xs) == 4
                                               else self.rng.randrange(1, 4))
            shp = (lead, k, self.rand_len())
        y = self.pick_or_new(pred, shape=shp, dtype=self.rand_dtype("ifc"), pool="unit",
                             p_new=0.5)
        return self.add(op, [x, y])

    def f_join(self) -> int:
        x = self.pick_or_new(None)
        xs = self.shape(x)
        n = self.rng.choice([1, 2, 2, 3])
        if self.rng.random() < 0.5 or not xs:
            if len(xs) >= MAX_NDIM:
                raise Reject("ndim")
            arrs = [x]
            for _ in range(n - 1):
                arrs.append(self.pick_or_new(lambda i: self.shape(i) == xs, shape=xs,
                                             dtype=self.dtype(x).name, p_new=0.3))
            if any(self.shape(a) != xs for a in arrs):
                raise Reject("shape")
            self.rng.shuffle(arrs)
            return self.add("stack", list(arrs), {"axis": self.rng.randrange(0, len(xs) + 1)})
        ax = self.rng.randrange(len(xs))

        def same_except(i: int) -> bool:
            s = self.shape(i)
            return len(s) == len(xs) and all(a == b for j, (a, b) in enumerate(zip(s, xs))
                                             if j != ax)
        arrs = [x]
        for _ in range(n - 1):
            t = list(xs)
            t[ax] = self.rand_len()
            arrs.append(self.pick_or_new(same_except, shape=tuple(t),
                                         dtype=self.dtype(x).name, p_new=0.4))
        if not all(same_except(a) for a in arrs):
            raise Reject("shape")
        self.rng.shuffle(arrs)
        return self.add("concatenate", list(arrs), {"axis": ax})

    def f_remap(self) -> int:
        op = self.rng.choice(["roll", "transpose", "T", "reshape", "reshape", "expand_dims",
                              "squeeze", "broadcast_to", "pad"] if self.profile != "distrib"
                             else ["transpose", "T", "reshape", "reshape", "expand_dims",
                                   "squeeze", "broadcast_to"])
        x = self.pick_or_new(None)
        xs = self.shape(x)
        nd = len(xs)
        if op == "roll":
            if nd == 0:
                raise Reject("0-d")
            ax = self.rng.randrange(nd)
            n = xs[ax]
            return self.add("roll", [x], {"shift": self.rng.randrange(-2 * n - 1, 2 * n + 2),
                                          "axis": ax})
        if op == "transpose":
            perm = list(range(nd))
            self.rng.shuffle(perm)
            return self.add("transpose", [x], {"axes": perm})
        if op == "T":
            return self.add("T", [x])
        if op == "reshape":
            size = int(np.prod(xs, dtype=np.int64))
            new = self._rand_factorisation(size)
            p: dict[str, Any] = {"newshape": list(new), "order": self.rng.choice(["C", "C", "F", "C", "C", "F", "c", "f"])}
            if self.rng.random() < 0.25 and size > 0 and new:
                j = self.rng.randrange(len(new))
                p["newshape"][j] = -1
            if self.rng.random() < 0.3:
                p["method"] = True
            return self.add("reshape", [x], p)
        if op == "expand_dims":
            k = self.rng.choice([1, 1, 2])
            if nd + k > MAX_NDIM:
                raise Reject("ndim")
            tot = nd + k
            ax = self.rng.sample(range(-tot, tot), k)
            if len({a % tot for a in ax}) != k:
                raise Reject("dup axis")
            return self.add("expand_dims", [x], {"axis": ax if k > 1 or self.rng.random() < 0.5
                                                 else ax[0]})
        if op == "squeeze":
            ones = [i for i, s in enumerate(xs) if s == 1]
            ax2 = None if (self.rng.random() < 0.4 or not ones) else \
                sorted(self.rng.sample(ones, self.rng.randrange(1, len(ones) + 1)))
            return self.add("squeeze", [x], {"axis": ax2})
        if op == "broadcast_to":
            tgt = [s if s != 1 or self.rng.random() < 0.4 else self.rng.randrange(1, 4)
                   for s in xs]
            while len(tgt) < MAX_NDIM and self.rng.random() < 0.4:
                tgt.insert(0, self.rng.randrange(1, 4))
            return self.add("broadcast_to", [x], {"shape": tgt})
        if op == "pad":
            if nd == 0:
                raise Reject("0-d")
            pw = [[self.rng.randrange(0, 3), self.rng.randrange(0, 3)] for _ in range(nd)]
            k = self.dtype(x).kind
            cv = self.rand_scalar({"b": "bool", "i": "int", "f": "float", "c": "complex"}[k])
            return self.add("pad", [x], {"pad_width": pw, "cval": cv})
        raise Reject(op)

    def _rand_factorisation(self, size: int) -> tuple[int, ...]:
        if size == 0:
            nd = self.rng.randrange(1, MAX_NDIM + 1)
            shp = [self.rng.randrange(0, 4) for _ in range(nd)]
            shp[self.rng.randrange(nd)] = 0
            return tuple(shp)
        nd = self.rng.randrange(0 if size == 1 else 1, MAX_NDIM + 1)
        if nd == 0:
            return ()
        shp = [1] * nd
        rem = size
        for j in range(nd - 1):
            divs = [d for d in range(1, rem + 1) if rem % d == 0 and d <= 12]
            d = self.rng.choice(divs)
            shp[j] = d
            rem //= d
        shp[-1] = rem
        self.rng.shuffle(shp)
        return tuple(shp)

    def _rand_slice(self, n: int) -> list[Any]:
        ss = [None] + list(range(-n - 2, n + 3))
        return ["s", self.rng.choice(ss), self.rng.choice(ss),
                self.rng.choice([None, 1, -1, 2, -2, 3, -3])]

    def f_index(self) -> int:
        x = self.pick_or_new(lambda i: self.v(i).ndim >= 1,
                             shape=self.rand_shape(self.rng.choice([1, 2, 3, 4])))
        xs = self.shape(x)
        if not xs:
            raise Reject("0-d")
        idx: list[Any] = []
        nidx = self.rng.randrange(1, len(xs) + 1)
        used_e = False
        for ax in range(nidx):
            r = self.rng.random()
            n = xs[ax] if not used_e else xs[len(xs) - (nidx - ax)]
            if r < 0.55:
                idx.append(self._rand_slice(n))
            elif r < 0.85 and n > 0:
                idx.append(["i", self.rng.randrange(-n, n)])
            elif r < 0.93 and not used_e and nidx < len(xs):
                idx.append(["e"])
                used_e = True
            else:
                idx.append(["s", None, None, None])
        return self.add("index", [x], {"index": idx})

    def f_adv_index(self) -> int:
        x = self.pick_or_new(lambda i: self.v(i).ndim >= 1 and all(s > 0 for s in self.shape(i)),
                             shape=tuple(max(1, s) for s in
                                         self.rand_shape(self.rng.choice([1, 2, 3]))))
        xs = self.shape(x)
        if not xs or any(s == 0 for s in xs):
            raise Reject("empty axis")
        nd = len(xs)
        n_arr = self.rng.choice([1, 1, 2, 2, 3]) if nd > 1 else 1
        arr_pos = sorted(self.rng.sample(range(nd), min(n_arr, nd)))
        bshape = [self.rng.randrange(1, 4) for _ in range(self.rng.choice([0, 1, 1, 2]))]
        idx: list[Any] = []
        args: list[Any] = [x]
        for ax in range(nd):
            n = xs[ax]
            if ax in arr_pos:
                sh = list(bshape)
                sh = sh[self.rng.randrange(0, len(sh) + 1):]
                sh = [1 if self.rng.random() < 0.3 else s for s in sh]
                cnt = int(np.prod(sh, dtype=int))
                lo = -n if self.rng.random() < 0.6 else 0
                dt = self.rng.choice(["int64", "int32"])
                data = [self.rng.randrange(lo, n) for _ in range(cnt)]
                i = self.new_input(tuple(sh), dt, "index", data=np.array(data, dtype=dt))
                idx.append(["a"])
                args.append(i)
            else:
                r = self.rng.random()
                if r < 0.45:
                    idx.append(self._rand_slice(n))
                elif r < 0.75:
                    idx.append(["i", self.rng.randrange(-n, n)])
                else:
                    idx.append(["s", None, None, None])
        while idx and idx[-1] == ["s", None, None, None] and self.rng.random() < 0.5:
            idx.pop()
        return self.add("index", args, {"index": idx})

    def f_csr(self) -> int:
        if self.no_csr:
            raise Reject("no csr")
        ncols = self.rng.randrange(1, 5)
        nrows = self.rng.randrange(0, 5)
        x = self.pick_or_new(lambda i: self.v(i).ndim >= 1 and self.shape(i)[0] == ncols
                             and self.dtype(i).kind in "if",
                             shape=(ncols,) + self.rand_shape(self.rng.choice([0, 0, 1])),
                             dtype=self.rand_dtype("if"), pool="unit", p_new=0.5)
        if self.shape(x)[0] != ncols or self.dtype(x).kind not in "if":
            raise Reject("x")
        rows = [0]
        cols: list[int] = []
        for _ in range(nrows):
            k = min(self.rng.choice([0, 1, 2, 3]), ncols)
            cols.extend(sorted(self.rng.sample(range(ncols), k)))
            rows.append(len(cols))
        vdt = self.rand_dtype("if")
        ev = self.new_input((len(cols),), vdt, "unit")
        idt = self.rng.choice(["int32", "int64"])
        ec = self.new_input((len(cols),), idt, "index", data=np.array(cols, dtype=idt))
        rs = self.new_input((nrows + 1,), idt, "index", data=np.array(rows, dtype=idt))
        return self.add("csr_matmul", [ev, ec, rs, x], {"shape": [nrows, ncols]})

    def f_create(self) -> int:
        op = self.rng.choice(["full", "zeros", "ones", "eye", "arange"])
        if op == "eye":
            return self.add("eye", [], {"N": self.rng.randrange(0, 5), "M": self.rng.choice(
                [None, self.rng.randrange(0, 5)]), "k": self.rng.randrange(-2, 3),
                "dtype": self.rand_dtype("if")})
        if op == "arange":
            dt = self.rand_dtype("if")
            start = self.rng.randrange(-3, 4)
            step = self.rng.choice([1, 2, -1, 3])
            stop = start + step * self.rng.randrange(0, 6)
            return self.add("arange", [], {"start": start, "stop": stop, "step": step,
                                           "dtype": dt})
        shp = list(self.rand_shape())
        dt = self.rand_dtype()
        if op == "full":
            k = np.dtype(dt).kind
            fill = self.rand_scalar({"b": "bool", "i": "int", "f": "float", "c": "complex"}[k])
            if self.nan and k == "f" and self.rng.random() < 0.3:
                fill = ps.enc_scalar(float("nan"))
            return self.add("full", [], {"shape": shp, "fill": fill, "dtype": dt})
        return self.add(op, [], {"shape": shp, "dtype": dt})

    def f_like(self) -> int:
        x = self.pick_or_new(lambda i: self.dtype(i).kind in "fc", dtype=self.rand_dtype("fc"))
        if self.dtype(x).kind not in "fc":
            raise Reject("kind")
        params: dict[str, Any] = {}
        if self.rng.random() < 0.4:
            # dtype override (zeros_like(a, dtype=d)): the result's dtype is not the operand's
            params["dtype"] = self.rng.choice(["float32", "float64", "int32", "int64",
                                               "complex128"])
        return self.add(self.rng.choice(["zeros_like", "ones_like"]), [x], params)

    def f_loopy(self) -> int:
        if self.no_loopy:
            raise Reject("no loopy")
        k = self.rng.choice(["axpy", "rowsum", "outer"])

        def f64(nd: int) -> Any:
            return lambda i: self.dtype(i) == np.float64 and self.v(i).ndim == nd \
                and self.v(i).size > 0
        if k == "axpy":
            x = self.pick_or_new(f64(1), shape=(self.rng.randrange(1, 6),), dtype="float64")
            y = self.pick_or_new(lambda i: f64(1)(i) and self.shape(i) == self.shape(x),
                                 shape=self.shape(x), dtype="float64", p_new=0.4)
            if not f64(1)(x) or not f64(1)(y) or self.shape(x) != self.shape(y):
                raise Reject("axpy")
            c = self.add("call_loopy", [x, y], {"kernel": k, "a": self.rand_scalar("float")})
            return self.add("getitem_named", [c], {"name": "out"})
        if k == "rowsum":
            x = self.pick_or_new(f64(2), shape=(self.rng.randrange(1, 5), self.rng.randrange(1, 5)),
                                 dtype="float64")
            if not f64(2)(x):
                raise Reject("rowsum")
            c = self.add("call_loopy", [x], {"kernel": k})
            return self.add("getitem_named", [c], {"name": "out"})
        x = self.pick_or_new(f64(1), shape=(self.rng.randrange(1, 5),), dtype="float64")
        y = self.pick_or_new(f64(1), shape=(self.rng.randrange(1, 5),), dtype="float64")
        if not f64(1)(x) or not f64(1)(y):
            raise Reject("outer")
        c = self.add("call_loopy", [x, y], {"kernel": k})
        r = self.add("getitem_named", [c], {"name": "out"})
        if self.rng.random() < 0.5:
            r2 = self.add("getitem_named", [c], {"name": "out2"})
            return r2 if self.rng.random() < 0.5 else r
        return r

    # -- driver
    def generate(self) -> dict[str, Any]:
        fams = sorted(self.weights)
        w = [self.weights[f] for f in fams]
        if self.opts.get("loopy_boost") and "loopy" in fams:
            w[fams.index("loopy")] = float(self.opts["loopy_boost"])
        # a couple of seed inputs
        for _ in range(self.rng.randrange(1, 3)):
            self.new_input(self.rand_shape(), self.rand_dtype())
        tries = 0
        count = 0
        while count < self.n_nodes and tries < self.n_nodes * 12:
            tries += 1
            fam = self.rng.choices(fams, w)[0]
            snap = (len(self.spec["inputs"]), len(self.spec["nodes"]), self.next_id,
                    list(self.ids), set(self.used))
            try:
                getattr(self, "f_" + fam)()
                count += 1
            except Reject:
                # roll back inputs/nodes created by the failed attempt
                ni, nn, nid, ids, used = snap
                for inp in self.spec["inputs"][ni:]:
                    self.vals[0].pop(inp["id"], None)
                    self.vals[1].pop(inp["id"], None)
                for nd in self.spec["nodes"][nn:]:
                    self.vals[0].pop(nd["id"], None)
                    self.vals[1].pop(nd["id"], None)
                del self.spec["inputs"][ni:]
                del self.spec["nodes"][nn:]
                self.next_id, self.ids, self.used = nid, ids, used
        self.choose_outputs()
        return self.spec

    def choose_outputs(self) -> None:
        node_ids = [n["id"] for n in self.spec["nodes"] if n["id"] in self.ids]
        if not node_ids:
            i = self.ids[0]
            self.spec["outputs"] = {"out0": i}
            return
        sinks = [i for i in node_ids if i not in self.used]
        nout = self.rng.choice([1, 1, 2, 2, 3])
        chosen: list[int] = []
        pool = sinks[::-1] + [i for i in node_ids[::-1] if i not in sinks]
        for i in pool:
            if len(chosen) >= nout:
                break
            if i in sinks or self.rng.random() < 0.3:
                chosen.append(i)
        if not chosen:
            chosen = [node_ids[-1]]
        outs = {f"out{j}": i for j, i in enumerate(chosen)}
        r = self.rng.random()
        if r < 0.08:
            inps = [i["id"] for i in self.spec["inputs"]]
            outs[f"out{len(outs)}"] = self.rng.choice(inps)     # an output that is an input
        elif r < 0.14:
            outs[f"out{len(outs)}"] = chosen[0]                 # one array under two keys
        items = list(outs.items())
        self.rng.shuffle(items)
        self.spec["outputs"] = dict(items)


def generate(seed: int, profile: str = "mixed", n_nodes: int | None = None,
             opts: dict[str, Any] | None = None) -> dict[str, Any]:
    rng = random.Random(seed ^ 0x5EED)
    if n_nodes is None:
        n_nodes = rng.choice([3, 4, 5, 6, 8, 10, 12, 16, 20, 25])
    return Gen(seed, profile, n_nodes, opts).generate()
