"""Input value pools (see DESIGN.md §2.1)."""
from __future__ import annotations

from typing import Any

import numpy as np

DTYPES6 = ["bool", "int32", "int64", "float32", "float64", "complex128"]
DTYPES11 = ["bool", "int8", "int16", "int32", "int64", "uint8", "uint16", "uint32",
            "uint64", "float32", "float64", "complex64", "complex128"]


def nprng(rng: Any) -> np.random.Generator:
    return np.random.default_rng(rng.getrandbits(63))


def make(rng: Any, shape: tuple[int, ...], dtype: Any, pool: str = "dyadic") -> np.ndarray:
    """pool: dyadic | nonzero | pow2 | positive | unit | generic | ids | nan"""
    dt = np.dtype(dtype)
    g = nprng(rng)
    n = int(np.prod(shape, dtype=np.int64))
    if pool == "ids":
        return (np.arange(n, dtype=np.int64).reshape(shape) + 1).astype(dt)
    if dt.kind == "b":
        return g.integers(0, 2, size=shape).astype(bool)
    if dt.kind in "iu":
        lo, hi = (-8, 9)
        if dt.kind == "u":
            lo = 0
        if pool in ("nonzero",):
            v = g.integers(1, 7, size=shape)
            if dt.kind == "i":
                v = v * g.choice([-1, 1], size=shape)
            return v.astype(dt)
        if pool in ("positive", "pow2"):
            return g.integers(1, 5, size=shape).astype(dt)
        if pool == "unit":
            return g.integers(0, 2, size=shape).astype(dt)
        return g.integers(lo, hi, size=shape).astype(dt)
    # float / complex

    def real_part() -> np.ndarray:
        if pool == "dyadic":
            return g.integers(-16, 17, size=shape) / 4.0
        if pool == "nonzero":
            k = g.integers(1, 17, size=shape) * g.choice([-1, 1], size=shape)
            return k / 4.0
        if pool == "pow2":
            return (2.0 ** g.integers(-1, 2, size=shape)) * g.choice([-1, 1], size=shape)
        if pool == "positive":
            return g.integers(1, 17, size=shape) / 4.0
        if pool == "unit":
            return g.integers(-3, 4, size=shape) / 4.0
        if pool == "generic":
            return g.standard_normal(size=shape) * 3.0
        if pool == "nan":
            v = g.integers(-16, 17, size=shape) / 4.0
            m = g.random(size=shape)
            v = np.where(m < 0.15, np.nan, v)
            v = np.where((m >= 0.15) & (m < 0.22), np.inf, v)
            v = np.where((m >= 0.22) & (m < 0.29), -np.inf, v)
            return v
        raise ValueError(pool)

    if dt.kind == "f":
        return np.asarray(real_part()).astype(dt).reshape(shape)
    if dt.kind == "c":
        if pool == "pow2":
            return np.asarray(real_part()).astype(dt).reshape(shape)
        re_, im_ = real_part(), real_part()
        if pool in ("nonzero", "positive"):
            pass
        return (np.asarray(re_) + 1j * np.asarray(im_)).astype(dt).reshape(shape)
    raise ValueError(dt)


def py_scalar(rng: Any, kind: str, pool: str = "dyadic") -> Any:
    if kind == "bool":
        return rng.random() < 0.5
    if kind == "int":
        if pool in ("nonzero", "positive", "pow2"):
            v = rng.randrange(1, 5)
            return v if pool != "nonzero" or rng.random() < 0.5 else -v
        return rng.randrange(-4, 5)
    if kind == "float":
        if pool == "pow2":
            return rng.choice([0.5, 2.0, -2.0, 4.0, 1.0])
        if pool in ("nonzero", "positive"):
            v = rng.randrange(1, 9) / 4.0
            return v if pool == "positive" or rng.random() < 0.5 else -v
        return rng.randrange(-8, 9) / 4.0
    if kind == "complex":
        if pool == "pow2":
            return complex(rng.choice([0.5, 2.0, -2.0]), 0.0)
        re_ = rng.randrange(1, 9) / 4.0
        im_ = rng.randrange(-8, 9) / 4.0
        return complex(re_, im_)
    raise ValueError(kind)
