"""Program specifications and the paired (pytato / NumPy shadow) interpreters.

A ProgSpec is a JSON-serialisable SSA list.  ``build_pt`` builds the pytato
expression through the *public API only*; ``Shadow`` executes the same spec with
NumPy on concrete arrays.  The random generator is NumPy-driven (DESIGN.md §2.1).
"""
from __future__ import annotations

import itertools
import math
from typing import Any

import numpy as np

from vf import common
from vf.gen import values

# ---------------------------------------------------------------------------
# scalar literal encoding


def enc_scalar(v: Any) -> list[Any]:
    if isinstance(v, np.generic):
        if isinstance(v, np.complexfloating):
            return ["np", v.dtype.name, [float(v.real), float(v.imag)]]
        if isinstance(v, np.bool_):
            return ["np", "bool", bool(v)]
        return ["np", v.dtype.name, v.item()]
    if isinstance(v, bool):
        return ["py", "bool", v]
    if isinstance(v, int):
        return ["py", "int", v]
    if isinstance(v, float):
        return ["py", "float", repr(v)]
    if isinstance(v, complex):
        return ["py", "complex", [v.real, v.imag]]
    raise TypeError(type(v))


def dec_scalar(e: list[Any]) -> Any:
    kind, t, v = e
    if kind == "py":
        if t == "bool":
            return bool(v)
        if t == "int":
            return int(v)
        if t == "float":
            return float(v)
        if t == "complex":
            return complex(v[0], v[1])
    if kind == "np":
        dt = np.dtype(t)
        if dt.kind == "c":
            return dt.type(complex(v[0], v[1]))
        return dt.type(v)
    raise ValueError(e)


def is_ref(a: Any) -> bool:
    return isinstance(a, int)


# ---------------------------------------------------------------------------
# op semantics: NumPy side

_BIN_NP = {
    "add": np.add, "sub": np.subtract, "mul": np.multiply, "truediv": np.true_divide,
    "floordiv": np.floor_divide, "mod": np.remainder, "pow": np.power,
    "and": np.bitwise_and, "or": np.bitwise_or, "xor": np.bitwise_xor,
    "equal": np.equal, "not_equal": np.not_equal, "less": np.less,
    "less_equal": np.less_equal, "greater": np.greater, "greater_equal": np.greater_equal,
    "logical_and": np.logical_and, "logical_or": np.logical_or,
    "maximum": np.maximum, "minimum": np.minimum, "arctan2": np.arctan2,
}
_PY_OPS = {"add": "+", "sub": "-", "mul": "*", "truediv": "/", "floordiv": "//",
           "mod": "%", "pow": "**", "and": "&", "or": "|", "xor": "^"}
_UN_NP = {
    "neg": np.negative, "abs": np.abs, "conj": np.conj, "real": np.real, "imag": np.imag,
    "sqrt": np.sqrt, "sin": np.sin, "cos": np.cos, "tan": np.tan, "arcsin": np.arcsin,
    "arccos": np.arccos, "arctan": np.arctan, "sinh": np.sinh, "cosh": np.cosh,
    "tanh": np.tanh, "exp": np.exp, "log": np.log, "log10": np.log10, "isnan": np.isnan,
    "logical_not": np.logical_not,
}
_RED_NP = {"sum": np.sum, "prod": np.prod, "amax": np.max, "amin": np.min,
           "all": np.all, "any": np.any}
INEXACT_UNARY = {"sqrt", "sin", "cos", "tan", "arcsin", "arccos", "arctan", "sinh", "cosh",
                 "tanh", "exp", "log", "log10", "abs"}
CMP_OPS = {"equal", "not_equal", "less", "less_equal", "greater", "greater_equal"}


def loopy_kernels() -> dict[str, Any]:
    """Three small hand-written kernels for call_loopy (built lazily)."""
    import loopy as lp
    from vf.exec import ctarget
    tgt = ctarget.lp_c_target()
    k: dict[str, Any] = {}
    k["axpy"] = lp.make_kernel(
        "{[i]: 0<=i<n}", "out[i] = a*x[i] + y[i]",
        [lp.ValueArg("a", np.float64), lp.GlobalArg("x", np.float64, shape=lp.auto),
         lp.GlobalArg("y", np.float64, shape=lp.auto),
         lp.GlobalArg("out", np.float64, shape=("n",), is_input=False), ...],
        name="vf_axpy", target=tgt, lang_version=(2018, 2))
    k["rowsum"] = lp.make_kernel(
        "{[i,j]: 0<=i<n and 0<=j<m}", "out[i] = sum(j, x[i,j])",
        [lp.GlobalArg("x", np.float64, shape=("n", "m")),
         lp.GlobalArg("out", np.float64, shape=("n",), is_input=False), ...],
        name="vf_rowsum", target=tgt, lang_version=(2018, 2))
    k["outer"] = lp.make_kernel(
        "{[i,j]: 0<=i<n and 0<=j<m}", "out[i,j] = x[i]*y[j]\n out2[i] = 2*x[i]",
        [lp.GlobalArg("x", np.float64, shape=("n",)),
         lp.GlobalArg("y", np.float64, shape=("m",)),
         lp.GlobalArg("out", np.float64, shape=("n", "m"), is_input=False),
         lp.GlobalArg("out2", np.float64, shape=("n",), is_input=False), ...],
        name="vf_outer", target=tgt, lang_version=(2018, 2))
    # a DIFFERENT kernel with the SAME name as "outer" (only used by directed programs: what a
    # program's callee is called must not depend on what was generated earlier in the process)
    k["outer_twin"] = lp.make_kernel(
        "{[i,j]: 0<=i<n and 0<=j<m}", "out[i,j] = x[i]+y[j]\n out2[i] = 3*x[i]",
        [lp.GlobalArg("x", np.float64, shape=("n",)),
         lp.GlobalArg("y", np.float64, shape=("m",)),
         lp.GlobalArg("out", np.float64, shape=("n", "m"), is_input=False),
         lp.GlobalArg("out2", np.float64, shape=("n",), is_input=False), ...],
        name="vf_outer", target=tgt, lang_version=(2018, 2))
    return k


_LPK: dict[str, Any] | None = None


def lpk() -> dict[str, Any]:
    global _LPK
    if _LPK is None:
        _LPK = loopy_kernels()
    return _LPK


class MCA:
    """Randomised-rounding evaluation context (Monte-Carlo arithmetic): every
    inexact operation's result is perturbed by a relative 2u*U(-1,1)."""

    def __init__(self, rng: np.random.Generator | None):
        self.rng = rng

    def p(self, v: np.ndarray, extra_abs: Any = None) -> np.ndarray:
        if self.rng is None:
            return v
        v = np.asarray(v)
        if v.dtype.kind not in "fc":
            return v
        u = np.finfo(v.dtype).eps
        with np.errstate(all="ignore"):
            # |d| in [1, 2]: never (nearly) zero -- a perturbation that rounds back to the
            # same float32 in all runs would claim a zero error bound for an operation whose
            # libm / SIMD implementations differ by one ulp
            d = self.rng.uniform(1.0, 2.0, size=v.shape) * \
                self.rng.choice(np.array([-1.0, 1.0]), size=v.shape)
            out = v * (1.0 + u * d)
            if extra_abs is not None:
                ea = np.asarray(extra_abs)
                if v.dtype.kind == "c":
                    # an absolute rounding bound applies to each part separately (a part that
                    # cancels exactly in one evaluation order need not in another: FMA)
                    mag = np.maximum(np.abs(ea.real), np.abs(ea.imag))
                    out = out + mag * (self.rng.uniform(-1.0, 1.0, size=v.shape)
                                       + 1j * self.rng.uniform(-1.0, 1.0, size=v.shape))
                else:
                    out = out + ea * self.rng.uniform(-1.0, 1.0, size=v.shape)
            out = np.where(np.isfinite(v), out, v)
        return out.astype(v.dtype)


def np_apply(op: str, a: list[Any], p: dict[str, Any], mca: MCA) -> Any:
    """NumPy meaning of one node.  *a*: operand values (ndarrays / scalars)."""
    with np.errstate(all="ignore"):
        if op in _BIN_NP:
            r = _BIN_NP[op](a[0], a[1])
            if op in ("truediv", "pow", "arctan2") or (
                    op in ("add", "sub", "mul") and np.asarray(r).dtype.kind in "fc"):
                extra = None
                ra = np.asarray(r)
                if ra.dtype.kind == "c" and op in ("mul", "truediv") and mca.rng is not None:
                    # each part of a complex product/quotient is a sum of real products that
                    # may cancel (and NumPy's SIMD loops use FMA, C code does not): the
                    # rounding error is relative to |x||y|, not to the part itself
                    u = np.finfo(ra.dtype).eps
                    mag = np.abs(np.asarray(a[0], dtype=ra.dtype)) * (
                        np.abs(np.asarray(a[1], dtype=ra.dtype)) if op == "mul" else
                        1.0 / np.maximum(np.abs(np.asarray(a[1], dtype=ra.dtype)),
                                         np.finfo(ra.dtype).tiny))
                    extra = np.where(np.isfinite(mag), 2 * u * mag, 0.0) * (1 + 1j)
                r = mca.p(r, extra)
            return r
        if op in _UN_NP:
            r = _UN_NP[op](a[0])
            if op in INEXACT_UNARY:
                r = mca.p(r)
            if op == "isnan" and not getattr(mca, "pure_numpy", False):
                # pytato declares isnan as int32 (C03 known finding); like the reduction
                # dtypes below, the non-pure shadow follows the declared dtype so that
                # dtype-only conventions do not turn into value alarms downstream
                # (sum(isnan(x)) counts, it is not a logical or)
                r = np.asarray(r).astype(np.int32)
            return r
        if op == "where":
            return np.where(a[0], a[1], a[2])
        if op == "astype":
            return np.asarray(a[0]).astype(p["dtype"])
        if op in _RED_NP:
            x = np.asarray(a[0])
            ax = None if p["axis"] is None else tuple(p["axis"])
            if getattr(mca, "pure_numpy", False):
                # NumPy's own result dtypes (sum(int32)->int64, sum(bool)->int64,
                # all/any->bool); used where the generated program *is* NumPy code (C14)
                r = _RED_NP[op](x, axis=ax)
                if op in ("sum", "prod") and x.dtype.kind in "fc" and mca.rng is not None:
                    n = x.size // max(np.asarray(r).size, 1)
                    u = np.finfo(x.dtype).eps
                    extra = n * u * (np.sum(np.abs(x), axis=ax) if op == "sum" else np.abs(r))
                    r = mca.p(np.asarray(r), extra)
                return r
            if op in ("sum", "prod"):
                r = _RED_NP[op](x, axis=ax, dtype=x.dtype)
                if x.dtype.kind in "fc" and mca.rng is not None:
                    n = x.size // max(np.asarray(r).size, 1)
                    u = np.finfo(x.dtype).eps
                    if op == "sum":
                        extra = n * u * np.sum(np.abs(x), axis=ax)
                    else:
                        extra = n * u * np.abs(r)
                    r = mca.p(np.asarray(r), extra)
                return r
            if op in ("all", "any"):
                return _RED_NP[op](x, axis=ax).astype(x.dtype)
            return _RED_NP[op](x, axis=ax)
        if op == "einsum":
            xs = [np.asarray(x) for x in a]
            spec = p["spec"].replace(" ", "")
            ins = spec.split("->")[0].split(",")
            lens: dict[str, int] = {}
            for sub, v in zip(ins, xs):
                for ch, l in zip(sub, v.shape):
                    if l != 1:
                        lens[ch] = l
                    lens.setdefault(ch, 1)
            bv = [np.broadcast_to(v, tuple(lens[ch] for ch in sub)) for sub, v in zip(ins, xs)]
            dt = np.result_type(*[v.dtype for v in xs])
            # raw operands: NumPy broadcasts unit axes across operands itself and rejects
            # a repeated index with different lengths inside one operand
            r = np.einsum(spec, *xs).astype(dt)
            if dt.kind in "fc" and mca.rng is not None:
                u = np.finfo(dt).eps
                n = int(np.prod([lens[c] for c in lens], dtype=np.int64))
                extra = n * u * np.einsum(spec, *[np.abs(v) for v in bv])
                r = mca.p(r, extra)
            return r
        if op == "matmul":
            r = np.matmul(a[0], a[1])
            return _sum_mca(r, a, mca)
        if op == "dot":
            r = np.dot(a[0], a[1])
            return _sum_mca(r, a, mca)
        if op == "vdot":
            r = np.vdot(a[0], a[1])
            return _sum_mca(np.asarray(r), a, mca)
        if op == "stack":
            return np.stack(a, axis=p["axis"])
        if op == "concatenate":
            return np.concatenate(a, axis=p["axis"])
        if op == "roll":
            return np.roll(a[0], p["shift"], axis=p["axis"])
        if op == "transpose":
            return np.transpose(a[0], p["axes"])
        if op == "T":
            return np.asarray(a[0]).T
        if op == "reshape":
            return np.reshape(a[0], tuple(p["newshape"]), order=p["order"])
        if op == "expand_dims":
            ax = p["axis"]
            return np.expand_dims(a[0], tuple(ax) if isinstance(ax, list) else ax)
        if op == "squeeze":
            return np.squeeze(a[0], None if p["axis"] is None else tuple(p["axis"]))
        if op == "broadcast_to":
            return np.broadcast_to(a[0], tuple(p["shape"]))
        if op == "pad":
            return np.pad(a[0], [tuple(w) for w in p["pad_width"]],
                          constant_values=dec_scalar(p["cval"]))
        if op == "index":
            idx = _np_index(p["index"], [np.asarray(x) for x in a[1:]])
            return np.asarray(a[0])[idx]
        if op == "csr_matmul":
            vals, cols, rows, x = (np.asarray(v) for v in a)
            nrows, ncols = p["shape"]
            dt = np.result_type(vals.dtype, x.dtype)
            dense = np.zeros((nrows, ncols), dtype=dt)
            for r_ in range(nrows):
                for j in range(int(rows[r_]), int(rows[r_ + 1])):
                    dense[r_, int(cols[j])] += vals[j]
            r = np.tensordot(dense, x.astype(dt), axes=(1, 0))
            if dt.kind in "fc" and mca.rng is not None:
                u = np.finfo(dt).eps
                extra = ncols * u * np.tensordot(np.abs(dense), np.abs(x.astype(dt)),
                                                 axes=(1, 0))
                r = mca.p(r, extra)
            return r
        if op == "full":
            return np.full(tuple(p["shape"]), dec_scalar(p["fill"]), dtype=p["dtype"])
        if op == "zeros":
            return np.zeros(tuple(p["shape"]), dtype=p["dtype"])
        if op == "ones":
            return np.ones(tuple(p["shape"]), dtype=p["dtype"])
        if op == "eye":
            return np.eye(p["N"], p["M"], p["k"], dtype=p["dtype"])
        if op == "arange":
            return np.arange(p["start"], p["stop"], p["step"], dtype=p["dtype"])
        if op == "zeros_like":
            return np.zeros_like(a[0], dtype=p.get("dtype"))
        if op == "ones_like":
            return np.ones_like(a[0], dtype=p.get("dtype"))
        if op == "call_loopy":
            k = p["kernel"]
            if k == "axpy":
                return {"out": mca.p(dec_scalar(p["a"]) * a[0] + a[1])}
            if k == "rowsum":
                x = np.asarray(a[0])
                r = np.sum(x, axis=1)
                if mca.rng is not None:
                    r = mca.p(r, x.shape[1] * np.finfo(x.dtype).eps * np.sum(np.abs(x), axis=1))
                return {"out": r}
            if k == "outer":
                return {"out": mca.p(np.multiply.outer(a[0], a[1])), "out2": 2 * a[0]}
            if k == "outer_twin":
                return {"out": mca.p(np.add.outer(a[0], a[1])), "out2": 3 * a[0]}
        if op == "getitem_named":
            return a[0][p["name"]]
    raise ValueError(f"unknown op {op}")


def _sum_mca(r: Any, a: list[Any], mca: MCA) -> Any:
    r = np.asarray(r)
    if r.dtype.kind in "fc" and mca.rng is not None:
        x, y = np.asarray(a[0]), np.asarray(a[1])
        n = max(x.shape[-1] if x.ndim else 1, 1)
        if x.size == 0 or y.size == 0:
            return r
        u = np.finfo(r.dtype).eps
        with np.errstate(all="ignore"):
            # crude but safe: n * u * sum_k |x_k||y_k| <= n^2 u max|x| max|y|
            extra = n * n * u * float(np.max(np.abs(x))) * float(np.max(np.abs(y)))
        if not np.isfinite(extra):
            extra = 0.0
        return mca.p(r, extra)
    return r


def _np_index(enc: list[Any], arrs: list[Any]) -> tuple[Any, ...]:
    out: list[Any] = []
    k = 0
    for e in enc:
        if e[0] == "s":
            out.append(slice(e[1], e[2], e[3]))
        elif e[0] == "i":
            out.append(int(e[1]))
        elif e[0] == "e":
            out.append(Ellipsis)
        elif e[0] == "a":
            out.append(arrs[k])
            k += 1
    return tuple(out)


# ---------------------------------------------------------------------------
# op semantics: pytato side (public API only)


def pt_apply(op: str, a: list[Any], p: dict[str, Any]) -> Any:
    import operator as o

    import pytato as pt
    if op in _PY_OPS:
        fn = {"add": o.add, "sub": o.sub, "mul": o.mul, "truediv": o.truediv,
              "floordiv": o.floordiv, "mod": o.mod, "pow": o.pow, "and": o.and_,
              "or": o.or_, "xor": o.xor}[op]
        return fn(a[0], a[1])
    if op in CMP_OPS or op in ("logical_and", "logical_or", "maximum", "minimum", "arctan2"):
        return getattr(pt, op)(a[0], a[1])
    if op == "neg":
        return -a[0]
    if op == "abs":
        return abs(a[0])
    if op == "conj":
        return a[0].conj()
    if op == "real":
        return a[0].real
    if op == "imag":
        return a[0].imag
    if op in _UN_NP:
        return getattr(pt, op)(a[0])
    if op == "where":
        return pt.where(a[0], a[1], a[2])
    if op == "astype":
        return a[0].astype(np.dtype(p["dtype"]))
    if op in _RED_NP:
        return getattr(pt, op)(a[0], axis=None if p["axis"] is None else tuple(p["axis"]))
    if op == "einsum":
        return pt.einsum(p["spec"], *a)
    if op == "matmul":
        return a[0] @ a[1]
    if op == "dot":
        return pt.dot(a[0], a[1])
    if op == "vdot":
        return pt.vdot(a[0], a[1])
    if op == "stack":
        return pt.stack(list(a), axis=p["axis"])
    if op == "concatenate":
        return pt.concatenate(list(a), axis=p["axis"])
    if op == "roll":
        return pt.roll(a[0], p["shift"], axis=p["axis"])
    if op == "transpose":
        return pt.transpose(a[0], tuple(p["axes"]))
    if op == "T":
        return a[0].T
    if op == "reshape":
        if p.get("method"):
            return a[0].reshape(*p["newshape"], order=p["order"]) if len(p["newshape"]) > 1 \
                else a[0].reshape(tuple(p["newshape"]), order=p["order"])
        return pt.reshape(a[0], tuple(p["newshape"]), order=p["order"])
    if op == "expand_dims":
        ax = p["axis"]
        return pt.expand_dims(a[0], tuple(ax) if isinstance(ax, list) else ax)
    if op == "squeeze":
        return pt.squeeze(a[0], None if p["axis"] is None else tuple(p["axis"]))
    if op == "broadcast_to":
        return pt.broadcast_to(a[0], tuple(p["shape"]))
    if op == "pad":
        return pt.pad(a[0], [tuple(w) for w in p["pad_width"]],
                      constant_values=dec_scalar(p["cval"]))
    if op == "index":
        idx = _np_index(p["index"], a[1:])
        return a[0][idx]
    if op == "csr_matmul":
        m = pt.make_csr_matrix(tuple(p["shape"]), a[0], a[1], a[2])
        return m @ a[3]
    if op == "full":
        return pt.full(tuple(p["shape"]), dec_scalar(p["fill"]), dtype=np.dtype(p["dtype"]))
    if op == "zeros":
        return pt.zeros(tuple(p["shape"]), dtype=np.dtype(p["dtype"]))
    if op == "ones":
        return pt.ones(tuple(p["shape"]), dtype=np.dtype(p["dtype"]))
    if op == "eye":
        return pt.eye(p["N"], p["M"], p["k"], dtype=np.dtype(p["dtype"]))
    if op == "arange":
        return pt.arange(p["start"], p["stop"], p["step"], dtype=np.dtype(p["dtype"]))
    if op == "zeros_like":
        return pt.zeros_like(a[0], dtype=np.dtype(p["dtype"]) if p.get("dtype") else None)
    if op == "ones_like":
        return pt.ones_like(a[0], dtype=np.dtype(p["dtype"]) if p.get("dtype") else None)
    if op == "call_loopy":
        from pytato.loopy import call_loopy
        k = p["kernel"]
        knl = lpk()[k]
        if k == "axpy":
            return call_loopy(knl, {"a": dec_scalar(p["a"]), "x": a[0], "y": a[1]})
        if k == "rowsum":
            return call_loopy(knl, {"x": a[0]})
        if k in ("outer", "outer_twin"):
            return call_loopy(knl, {"x": a[0], "y": a[1]})
    if op == "getitem_named":
        return a[0][p["name"]]
    raise ValueError(f"unknown op {op}")


# ---------------------------------------------------------------------------
# spec interpreters


def input_values(spec: dict[str, Any], vset: int) -> dict[int, np.ndarray]:
    """Concrete values for every input of *spec* for value-set *vset*."""
    out: dict[int, np.ndarray] = {}
    for inp in spec["inputs"]:
        i = inp["id"]
        if "data" in inp:
            out[i] = np.array(inp["data"], dtype=inp["dtype"]).reshape(inp["shape"])
            continue
        pool = inp.get("pool", "dyadic")
        if vset % 2 == 1 and pool == "dyadic":
            pool = "generic"
        if spec.get("nan") and pool in ("dyadic", "generic") and \
                np.dtype(inp["dtype"]).kind == "f":
            pool = "nan"
        rng = common.rng_for(spec["vseed"], "input", i, vset)
        out[i] = values.make(rng, tuple(inp["shape"]), inp["dtype"], pool)
    return out


class Shadow:
    """NumPy execution of a spec.  ``vals[id]`` for every input and node."""

    def __init__(self, spec: dict[str, Any], vset: int, mca_seed: int | None = None,
                 pure_numpy: bool = False):
        self.spec = spec
        self.vals: dict[int, Any] = dict(input_values(spec, vset))
        self.mca = MCA(None if mca_seed is None else np.random.default_rng(mca_seed))
        self.mca.pure_numpy = pure_numpy  # type: ignore[attr-defined]
        for nd in spec["nodes"]:
            self.vals[nd["id"]] = self.eval_node(nd)

    def arg(self, a: Any) -> Any:
        return self.vals[a] if is_ref(a) else dec_scalar(a)

    def eval_node(self, nd: dict[str, Any]) -> Any:
        return np_apply(nd["op"], [self.arg(a) for a in nd["args"]], nd.get("params", {}),
                        self.mca)

    def outputs(self) -> dict[str, np.ndarray]:
        return {k: np.asarray(self.vals[v]) for k, v in self.spec["outputs"].items()}


class PtBuild:
    """pytato build of a spec via the public API."""

    def __init__(self, spec: dict[str, Any], vset: int = 0,
                 namer: Any = None, data_values: dict[int, np.ndarray] | None = None,
                 post: Any = None, order: list[int] | None = None,
                 input_arrays: dict[int, Any] | None = None):
        """*post(id, array)* may return a decorated (e.g. tagged) array for every input
        and node; *order* is an alternative (dependency-respecting) creation order of
        the node ids."""
        import pytato as pt
        self.spec = spec
        self.nodes: dict[int, Any] = {}
        self.input_names: dict[int, str | None] = {}
        self.data: dict[int, np.ndarray] = {}
        self.post_skipped: set[int] = set()
        iv = data_values if data_values is not None else input_values(spec, vset)
        for inp in spec["inputs"]:
            i = inp["id"]
            kind = inp["kind"]
            if input_arrays is not None and i in input_arrays:
                # (C12) the caller supplies the array standing for this input
                self.input_names[i] = None
                self.nodes[i] = input_arrays[i]
                continue
            if kind == "ph":
                name = inp["name"] if namer is None else namer(i, inp)
                self.input_names[i] = name
                self.nodes[i] = pt.make_placeholder(name, tuple(inp["shape"]),
                                                    np.dtype(inp["dtype"]))
            elif kind == "dw":
                self.data[i] = iv[i]
                self.input_names[i] = None
                self.nodes[i] = pt.make_data_wrapper(iv[i])
            else:
                raise ValueError(kind)
            if post is not None:
                self.nodes[i] = post(i, self.nodes[i])
        nodes = spec["nodes"]
        if order is not None:
            byid = {n["id"]: n for n in nodes}
            nodes = [byid[i] for i in order]
        for nd in nodes:
            args = [self.nodes[a] if is_ref(a) else dec_scalar(a) for a in nd["args"]]
            r = pt_apply(nd["op"], args, nd.get("params", {}))
            if post is not None and any(r is a for a in args):
                self.post_skipped.add(nd["id"])
            if post is not None and not any(r is a for a in args):
                # (an operation that returns its operand itself -- roll by 0, reshape to the
                # same shape -- is not a node of its own: decorating it would fork the operand)
                r = post(nd["id"], r)
            self.nodes[nd["id"]] = r

    def outputs(self) -> dict[str, Any]:
        return {k: self.nodes[v] for k, v in self.spec["outputs"].items()}

    def env(self, vset: int) -> dict[str, np.ndarray]:
        iv = input_values(self.spec, vset)
        return {self.input_names[inp["id"]]: iv[inp["id"]] for inp in self.spec["inputs"]
                if inp["kind"] == "ph"}


def integer_zero_divisor(spec: dict[str, Any], vset: int, plain: Any = None) -> bool:
    """Does some INTEGER floordiv / mod of *spec* divide by zero on input set *vset*?
    (undefined behaviour in C -- SIGFPE --, a warning and 0 in NumPy: outside the fragment)"""
    try:
        plain = plain or Shadow(spec, vset)
        for nd in spec["nodes"]:
            if nd["op"] in ("floordiv", "mod") and len(nd["args"]) == 2:
                dv = np.asarray(plain.arg(nd["args"][1]))
                if dv.dtype.kind in "biu" and \
                        np.asarray(plain.arg(nd["args"][0])).dtype.kind in "biu" \
                        and dv.size and not np.all(dv):
                    return True
    except Exception:  # noqa: BLE001
        return True
    return False


def reference(spec: dict[str, Any], vset: int, n_mca: int = 4, pure_numpy: bool = False
              ) -> tuple[dict[str, np.ndarray], dict[str, np.ndarray], bool, Shadow]:
    """-> (reference outputs, per-output absolute spread, fragile?, plain shadow)."""
    plain = Shadow(spec, vset, pure_numpy=pure_numpy)
    ref = plain.outputs()
    spread = {k: np.zeros(v.shape) for k, v in ref.items()}
    # an INTEGER division / remainder by zero is outside the fragment (undefined in C, a
    # warning and 0 in NumPy): such an input set is unusable, like a fragile one.  The
    # generator screens value sets 0 and 1; redrawn sets are screened here.
    fragile = False
    discrete = {nd["id"] for nd in spec["nodes"] if nd["op"] in ("all", "any", "isnan")}
    zero_tested: set[int] = set()
    for nd in spec["nodes"]:
        if nd["op"] in ("all", "any", "logical_not", "logical_and", "logical_or"):
            zero_tested.update(a for a in nd["args"] if is_ref(a))
        elif nd["op"] == "where" and nd["args"] and is_ref(nd["args"][0]):
            zero_tested.add(nd["args"][0])
        elif nd["op"] == "astype" and str(nd.get("params", {}).get("dtype")) == "bool":
            zero_tested.update(a for a in nd["args"] if is_ref(a))
    dev: dict[int, Any] = {}
    for nd in spec["nodes"]:
        if nd["op"] in ("floordiv", "mod") and len(nd["args"]) == 2:
            dv = np.asarray(plain.arg(nd["args"][1]))
            if dv.dtype.kind in "biu" and np.asarray(plain.arg(nd["args"][0])).dtype.kind in "biu" \
                    and dv.size and not np.all(dv):
                fragile = True
    for j in range(n_mca):
        sh = Shadow(spec, vset, mca_seed=common.sub_seed(spec["vseed"], "mca", vset, j),
                    pure_numpy=pure_numpy)
        # any discrete-valued node that flips under perturbation => fragile input set
        for nid, v in sh.vals.items():
            pv = plain.vals[nid]
            if isinstance(v, dict):
                continue
            va, pa = np.asarray(v), np.asarray(pv)
            # (all / any / isnan are truth values whatever dtype they are declared with)
            if va.dtype.kind in "biu" or nid in discrete:
                if va.shape != pa.shape or not np.array_equal(va, pa):
                    fragile = True
            else:
                with np.errstate(all="ignore"):
                    if not np.array_equal(np.isnan(va), np.isnan(pa)) or \
                            not np.array_equal(np.isinf(va), np.isinf(pa)):
                        fragile = True
                    if nid in zero_tested and va.shape == pa.shape and va.dtype.kind in "fc":
                        dv_ = np.abs(va.astype(np.complex128) - pa.astype(np.complex128))
                        dev[nid] = np.maximum(dev.get(nid, 0.0), np.where(np.isfinite(dv_),
                                                                        dv_, 0.0))
        for k, v in sh.outputs().items():
            if v.dtype.kind in "fc" and v.shape == ref[k].shape:
                with np.errstate(all="ignore"):
                    d = np.abs(v.astype(np.complex128) - ref[k].astype(np.complex128))
                    d = np.where(np.isfinite(d), d, 0.0)
                spread[k] = np.maximum(spread[k], d)
    # an inexact value that an operation tests for being ZERO (all / any / logical ops / the
    # condition of where): sampling never produces an exact zero, but another evaluation order
    # can -- unusable if some element lies within its own error bound of zero
    for nid, dv_ in dev.items():
        pa = np.abs(np.asarray(plain.vals[nid]).astype(np.complex128))
        with np.errstate(all="ignore"):
            if np.any((dv_ > 0) & (pa <= 8.0 * dv_)):
                fragile = True
    return ref, spread, fragile, plain


def node_kinds(spec: dict[str, Any]) -> list[str]:
    return [n["op"] for n in spec["nodes"]]


STRUCTURAL_OPS = {"sum", "prod", "amax", "amin", "all", "any", "einsum", "matmul", "dot",
                  "vdot", "index", "reshape", "roll", "concatenate", "stack", "pad", "where",
                  "csr_matmul", "transpose", "T", "broadcast_to", "expand_dims", "squeeze",
                  "maximum", "minimum", "call_loopy"}


def is_nontrivial(spec: dict[str, Any]) -> bool:
    ks = node_kinds(spec)
    return len(ks) >= 3 and any(k in STRUCTURAL_OPS for k in ks)


def _kind(dt: Any) -> str:
    dt = np.dtype(dt)
    if dt.kind == "f":
        return f"f{dt.itemsize}"
    if dt.kind == "c":
        return "c"
    return dt.kind


def signature(spec: dict[str, Any]) -> str:
    """Short mechanism-like description of a (minimal) spec: op(operand kinds) per node."""
    try:
        sh = Shadow(spec, 0)
        vals = sh.vals
    except Exception:  # noqa: BLE001
        vals = {}
    inputs = {i["id"]: i for i in spec["inputs"]}
    parts = []
    for n in spec["nodes"]:
        args = []
        for a in n["args"]:
            if is_ref(a):
                if a in inputs:
                    k = _kind(inputs[a]["dtype"])
                    shp = inputs[a]["shape"]
                elif a in vals and not isinstance(vals[a], dict):
                    k = _kind(np.asarray(vals[a]).dtype)
                    shp = list(np.asarray(vals[a]).shape)
                else:
                    k, shp = "?", []
                if 0 in shp:
                    k += "[empty]"
                args.append(k)
            else:
                args.append(f"{a[0]}-{a[1]}")
        extra = ""
        p = n.get("params", {})
        if n["op"] == "astype":
            extra = "->" + _kind(p["dtype"])
        if n["op"] in ("full", "zeros", "ones", "eye", "arange"):
            extra = ":" + _kind(p["dtype"]) + ("[empty]" if 0 in p.get("shape", [1]) else "")
        parts.append(f"{n['op']}({','.join(args)}){extra}")
    if not parts:
        parts = ["<inputs-only>"]
    return ";".join(parts)[:400]
