"""Programs over symbolic (size-parameter) shapes, for C11 and C16.

A symbolic spec is a ProgSpec whose input shapes (and the shape parameters of
full/zeros/ones/broadcast_to) may contain affine forms ``["aff", {"n": 2, "": 1}]``
(= 2n+1) over size parameters listed in ``spec["params"]``.  ``instantiate`` turns
it into a concrete ProgSpec for one valuation (consumed by the NumPy shadow);
``build_symbolic`` builds the pytato expression once, with SizeParams.
Only operations that admit symbolic axes are generated (elementwise with
broadcasting, where, math, transpose, roll, stack, concatenate, einsum, reductions
over static axes, full/zeros/ones, step-only slices, int indices on static axes, pad).
"""
from __future__ import annotations

import copy
import random
from typing import Any

import numpy as np

from vf.gen import progspec as ps

Aff = dict[str, int]        # {"n": 2, "": 1}


def aff(c: int = 0, **kw: int) -> Aff:
    d = {k: v for k, v in kw.items() if v}
    if c:
        d[""] = c
    return d


def aff_eval(a: Any, val: dict[str, int]) -> int:
    if isinstance(a, int):
        return a
    if isinstance(a, list) and a and a[0] == "aff":
        a = a[1]
    return sum(v * (val[k] if k else 1) for k, v in a.items())


def enc(a: Aff | int) -> Any:
    if isinstance(a, int):
        return a
    if set(a) <= {""}:
        return a.get("", 0)
    return ["aff", dict(a)]


def dec(x: Any) -> Aff:
    if isinstance(x, int):
        return aff(x)
    return dict(x[1])


def aff_add(a: Aff, b: Aff) -> Aff:
    out = dict(a)
    for k, v in b.items():
        out[k] = out.get(k, 0) + v
    return {k: v for k, v in out.items() if v}


def is_static(a: Aff) -> bool:
    return set(a) <= {""}


def instantiate(spec: dict[str, Any], val: dict[str, int]) -> dict[str, Any]:
    s = copy.deepcopy(spec)
    for i in s["inputs"]:
        i["shape"] = [aff_eval(x, val) for x in i["shape"]]
    for n in s["nodes"]:
        p = n.get("params", {})
        for key in ("shape",):
            if key in p and n["op"] in ("full", "zeros", "ones", "broadcast_to"):
                p[key] = [aff_eval(x, val) for x in p[key]]
    s.pop("params", None)
    return s


def pt_shape(shape: list[Any], sps: dict[str, Any]) -> tuple[Any, ...]:
    out = []
    for x in shape:
        if isinstance(x, int):
            out.append(x)
        else:
            a = dec(x)
            e: Any = a.get("", 0)
            # deliberately varied syntactic forms of the same affine expression
            terms = [(k, v) for k, v in sorted(a.items()) if k]
            for k, v in terms:
                e = e + v * sps[k] if (v != 1) else e + sps[k]
            out.append(e)
    return tuple(out)


class SymBuild:
    """pytato build of a symbolic spec (SizeParams + symbolic placeholder shapes)."""

    def __init__(self, spec: dict[str, Any], post: Any = None):
        """*post(id, array)* may decorate (e.g. tag) every input and node as in PtBuild."""
        import pytato as pt
        self.spec = spec
        self.sps = {p: pt.make_size_param(p) for p in spec["params"]}
        self.nodes: dict[int, Any] = {}
        for inp in spec["inputs"]:
            self.nodes[inp["id"]] = pt.make_placeholder(
                inp["name"], pt_shape(inp["shape"], self.sps), np.dtype(inp["dtype"]))
            if post is not None:
                self.nodes[inp["id"]] = post(inp["id"], self.nodes[inp["id"]])
        for nd in spec["nodes"]:
            args = [self.nodes[a] if ps.is_ref(a) else ps.dec_scalar(a) for a in nd["args"]]
            p = dict(nd.get("params", {}))
            if nd["op"] in ("full", "zeros", "ones", "broadcast_to"):
                shp = pt_shape(p["shape"], self.sps)
                if nd["op"] == "broadcast_to":
                    self.nodes[nd["id"]] = pt.broadcast_to(args[0], shp)
                elif nd["op"] == "full":
                    self.nodes[nd["id"]] = pt.full(shp, ps.dec_scalar(p["fill"]),
                                                   dtype=np.dtype(p["dtype"]))
                else:
                    self.nodes[nd["id"]] = getattr(pt, nd["op"])(shp, dtype=np.dtype(p["dtype"]))
            else:
                self.nodes[nd["id"]] = ps.pt_apply(nd["op"], args, p)
            r = self.nodes[nd["id"]]
            if post is not None and not any(r is a for a in args):
                self.nodes[nd["id"]] = post(nd["id"], r)

    def outputs(self) -> dict[str, Any]:
        return {k: self.nodes[v] for k, v in self.spec["outputs"].items()}


class SymGen:
    # families of the C16 quantifier: elementwise with broadcasting, transpose, roll,
    # stack, einsum, reductions over static axes, full/zeros
    C16_FAMILIES = {"binop", "where", "math", "transpose", "roll", "stack", "einsum", "reduce",
                    "create", "cmp"}

    def __init__(self, seed: int, n_nodes: int = 8, nparams: int | None = None,
                 families: set[str] | None = None):
        self.families = families
        self.rng = random.Random(seed)
        self.params = ["n", "m", "k"][: (nparams or self.rng.choice([1, 1, 2, 2, 3]))]
        self.spec: dict[str, Any] = {"inputs": [], "nodes": [], "outputs": {},
                                     "vseed": seed & 0xFFFFFFFF, "params": self.params,
                                     "profile": "symbolic"}
        self.shape: dict[int, list[Aff]] = {}
        self.dtype: dict[int, str] = {}
        self.ids: list[int] = []
        self.used: set[int] = set()
        self.next_id = 0
        self.n_nodes = n_nodes
        # two reference valuations to validate with NumPy
        self.vals = [{p: self.rng.randrange(1, 4) for p in self.params},
                     {p: self.rng.randrange(2, 6) for p in self.params}]

    def rand_dim(self) -> Aff:
        r = self.rng.random()
        if r < 0.45:
            p = self.rng.choice(self.params)
            c = self.rng.choice([1, 1, 1, 2, 3])
            k = self.rng.choice([0, 0, 0, 1, 2])
            return aff(k, **{p: c})
        if r < 0.55 and len(self.params) > 1:
            p, q = self.rng.sample(self.params, 2)
            return aff(self.rng.choice([0, 1]), **{p: 1, q: 1})
        return aff(self.rng.choice([1, 2, 3, 4]))

    def new_input(self, shape: list[Aff], dtype: str | None = None) -> int:
        i = self.next_id
        self.next_id += 1
        dtype = dtype or self.rng.choice(["float64", "float64", "float32", "int64", "int32"])
        self.spec["inputs"].append({"id": i, "kind": "ph", "name": f"x{i}",
                                    "shape": [enc(a) for a in shape], "dtype": dtype,
                                    "pool": "dyadic"})
        self.shape[i] = shape
        self.dtype[i] = dtype
        self.ids.append(i)
        return i

    def add(self, op: str, args: list[Any], params: dict[str, Any], shape: list[Aff],
            dtype: str) -> int:
        i = self.next_id
        self.next_id += 1
        self.spec["nodes"].append({"id": i, "op": op, "args": args, "params": params})
        self.shape[i] = shape
        self.dtype[i] = dtype
        self.ids.append(i)
        for a in args:
            if ps.is_ref(a):
                self.used.add(a)
        return i

    def pick(self, pred: Any = None) -> int | None:
        c = [i for i in self.ids if pred is None or pred(i)]
        if not c:
            return None
        w = [1 + 3 * (i / max(self.next_id, 1)) + (2 if i not in self.used else 0) for i in c]
        return self.rng.choices(c, w)[0]

    def rdt(self, *ids: int) -> str:
        return np.result_type(*[np.dtype(self.dtype[i]) for i in ids]).name

    def step(self) -> None:
        fam = self.rng.choices(
            ["binop", "where", "math", "transpose", "roll", "stack", "concat", "einsum",
             "reduce", "create", "slice", "pad", "bcast", "cmp"],
            [5, 1.5, 1.5, 2, 2, 1.5, 1.5, 2, 2.5, 1, 2, 1, 1.5, 1])[0]
        if self.families is not None and fam not in self.families:
            return
        x = self.pick()
        if x is None:
            return
        xs = self.shape[x]
        if fam in ("binop", "where", "cmp") and self.dtype[x] == "bool":
            return      # arithmetic on bool values is C01's known bool-saturation finding
        if fam in ("binop", "cmp", "where"):
            # partner: same shape, a broadcastable suffix with unit axes, or a scalar
            r = self.rng.random()
            if r < 0.5:
                y = self.pick(lambda i: self.shape[i] == xs and self.dtype[i] != "bool")
                if y is None or self.rng.random() < 0.3:
                    y = self.new_input(list(xs), self.dtype[x])
                ysh = xs
            elif r < 0.8:
                k = self.rng.randrange(0, len(xs) + 1)
                ysh = [aff(1) if self.rng.random() < 0.4 else a for a in xs[k:]]
                y = self.new_input(list(ysh))
            else:
                y = None
                ysh = []
            # result shape: x's shape (partner is a suffix with unit axes)
            if fam == "cmp":
                op = self.rng.choice(["less", "greater_equal", "equal"])
                args = [x, y] if y is not None else [x, ps.enc_scalar(1)]
                self.add(op, args, {}, list(xs), "bool")
            elif fam == "where":
                c = self.add("greater", [x, ps.enc_scalar(0)], {}, list(xs), "bool")
                z = y if y is not None else ps.enc_scalar(2)
                dt = self.rdt(x, y) if y is not None else self.dtype[x]
                self.add("where", [c, x, z], {}, list(xs), dt)
            else:
                op = self.rng.choice(["add", "sub", "mul", "add", "mul"])
                if y is None:
                    sc = ps.enc_scalar(self.rng.choice([2, 3, -1, 0.5, 2.0]))
                    dt = np.result_type(np.dtype(self.dtype[x]),
                                        type(ps.dec_scalar(sc))).name \
                        if isinstance(ps.dec_scalar(sc), float) and \
                        np.dtype(self.dtype[x]).kind == "i" else self.dtype[x]
                    if isinstance(ps.dec_scalar(sc), float) and np.dtype(self.dtype[x]).kind == "i":
                        dt = "float64"
                    self.add(op, [x, sc] if self.rng.random() < 0.6 else [sc, x], {},
                             list(xs), dt)
                else:
                    args = [x, y] if self.rng.random() < 0.6 else [y, x]
                    self.add(op, args, {}, list(xs), self.rdt(x, y))
        elif fam == "math":
            if np.dtype(self.dtype[x]).kind != "f":
                return
            self.add(self.rng.choice(["sin", "cos", "exp", "tanh"]), [x], {}, list(xs),
                     self.dtype[x])
        elif fam == "transpose":
            if len(xs) < 2:
                return
            perm = list(range(len(xs)))
            self.rng.shuffle(perm)
            self.add("transpose", [x], {"axes": perm}, [xs[p] for p in perm], self.dtype[x])
        elif fam == "roll":
            if not xs:
                return
            ax = self.rng.randrange(len(xs))
            self.add("roll", [x], {"shift": self.rng.randrange(-7, 8), "axis": ax}, list(xs),
                     self.dtype[x])
        elif fam == "stack":
            if len(xs) >= 3:
                return
            ys = [x]
            for _ in range(self.rng.choice([0, 1, 2])):
                y = self.pick(lambda i: self.shape[i] == xs)
                ys.append(y if y is not None and self.rng.random() < 0.6
                          else self.new_input(list(xs), self.dtype[x]))
            ax = self.rng.randrange(len(xs) + 1)
            shp = list(xs)
            shp.insert(ax, aff(len(ys)))
            self.add("stack", ys, {"axis": ax}, shp, self.rdt(*ys))
        elif fam == "concat":
            if not xs:
                return
            ax = self.rng.randrange(len(xs))
            ys = [x]
            tot = xs[ax]
            for _ in range(self.rng.choice([1, 2])):
                t = list(xs)
                t[ax] = self.rand_dim()
                ys.append(self.new_input(t, self.dtype[x]))
                tot = aff_add(tot, t[ax])
            shp = list(xs)
            shp[ax] = tot
            self.add("concatenate", ys, {"axis": ax}, shp, self.dtype[x])
        elif fam == "einsum":
            if not (1 <= len(xs) <= 3):
                return
            letters = "ijkl"
            sub1 = letters[: len(xs)]
            lens = dict(zip(sub1, xs))
            # second operand shares some letters
            k = self.rng.randrange(1, 3)
            sub2 = ""
            shp2: list[Aff] = []
            for _ in range(k):
                if self.rng.random() < 0.7:
                    ch = self.rng.choice(sub1)
                else:
                    ch = letters[len(lens)] if len(lens) < 4 else self.rng.choice(sub1)
                    lens.setdefault(ch, self.rand_dim())
                if ch in sub2:
                    continue
                sub2 += ch
                shp2.append(lens[ch])
            y = self.new_input(shp2, self.dtype[x])
            allc = sorted(set(sub1 + sub2))
            # reduce only over letters of static length (reductions over symbolic axes in
            # einsum are supported via bounds; keep both kinds)
            out = [c for c in allc if self.rng.random() < 0.6]
            self.rng.shuffle(out)
            self.add("einsum", [x, y], {"spec": f"{sub1},{sub2}->{''.join(out)}"},
                     [lens[c] for c in out], self.rdt(x, y))
        elif fam == "reduce":
            stat = [i for i, a in enumerate(xs) if is_static(a) and a.get("", 0) > 0]
            if not stat or np.dtype(self.dtype[x]).kind not in "if":
                return
            ax = sorted(self.rng.sample(stat, self.rng.randrange(1, len(stat) + 1)))
            op = self.rng.choice(["sum", "sum", "amax", "prod"])
            if op == "prod":
                return
            self.add(op, [x], {"axis": ax}, [a for i, a in enumerate(xs) if i not in ax],
                     self.dtype[x])
        elif fam == "create":
            shp = [self.rand_dim() for _ in range(self.rng.choice([1, 2]))]
            op = self.rng.choice(["zeros", "ones", "full"])
            p: dict[str, Any] = {"shape": [enc(a) for a in shp], "dtype": "float64"}
            if op == "full":
                p["fill"] = ps.enc_scalar(1.5)
            self.add(op, [], p, shp, "float64")
        elif fam == "slice":
            if not xs:
                return
            idx: list[Any] = []
            shp = []
            for a in xs:
                r = self.rng.random()
                if is_static(a) and a.get("", 0) > 0 and r < 0.3:
                    n = a[""]
                    idx.append(["i", self.rng.randrange(-n, n)])
                elif r < 0.5 and is_static(a):
                    n = a.get("", 0)
                    st = self.rng.choice([None, 1, -1, 2])
                    s0 = self.rng.choice([None, 0, 1, -1])
                    idx.append(["s", s0, None, st])
                    shp.append(aff(len(range(n)[slice(s0, None, st)])))
                elif r < 0.7:
                    idx.append(["s", None, None, -1])        # reversed: same length
                    shp.append(a)
                else:
                    idx.append(["s", None, None, None])
                    shp.append(a)
            self.add("index", [x], {"index": idx}, shp, self.dtype[x])
        elif fam == "pad":
            if not xs:
                return
            pw = [[self.rng.randrange(0, 3), self.rng.randrange(0, 3)] for _ in xs]
            shp = [aff_add(a, aff(w[0] + w[1])) for a, w in zip(xs, pw)]
            k = np.dtype(self.dtype[x]).kind
            cv = ps.enc_scalar(1 if k == "i" else 1.5)
            self.add("pad", [x], {"pad_width": pw, "cval": cv}, shp, self.dtype[x])
        elif fam == "bcast":
            lead = [self.rand_dim() for _ in range(self.rng.choice([0, 1]))]
            if len(lead) + len(xs) > 4:
                return
            shp = lead + list(xs)
            self.add("broadcast_to", [x], {"shape": [enc(a) for a in shp]}, shp, self.dtype[x])

    def generate(self) -> dict[str, Any]:
        for _ in range(self.rng.randrange(1, 3)):
            self.new_input([self.rand_dim() for _ in range(self.rng.choice([1, 2, 2, 3]))])
        tries = 0
        while len(self.spec["nodes"]) < self.n_nodes and tries < self.n_nodes * 8:
            tries += 1
            snap = (len(self.spec["inputs"]), len(self.spec["nodes"]), self.next_id,
                    list(self.ids), set(self.used))
            self.step()
            if not self.valid():
                ni, nn, nid, ids, used = snap
                del self.spec["inputs"][ni:]
                del self.spec["nodes"][nn:]
                self.next_id, self.ids, self.used = nid, ids, used
        node_ids = [n["id"] for n in self.spec["nodes"]]
        if not node_ids:
            self.spec["outputs"] = {"out0": self.ids[0]}
            return self.spec
        sinks = [i for i in node_ids if i not in self.used] or [node_ids[-1]]
        self.rng.shuffle(sinks)
        self.spec["outputs"] = {f"out{j}": i for j, i in enumerate(sinks[:3])}
        return self.spec

    def valid(self) -> bool:
        """NumPy accepts the program at both reference valuations, with the shapes the
        symbolic rules predict; magnitudes stay moderate."""
        try:
            for val in self.vals:
                sh = ps.Shadow(instantiate(dict(self.spec, outputs={}), val), 0)
                for i, v in sh.vals.items():
                    v = np.asarray(v)
                    want = tuple(aff_eval(a, val) for a in self.shape[i])
                    if v.shape != want or any(s < 0 for s in want):
                        return False
                    if v.dtype.name != self.dtype[i]:
                        self.dtype[i] = v.dtype.name
                    if v.size and v.dtype.kind in "fi" and \
                            not np.all(np.isfinite(v.astype(np.float64))):
                        return False
                    if v.size and np.max(np.abs(v.astype(np.float64))) > 1e5:
                        return False
                    if v.size > 3000:
                        return False
        except Exception:  # noqa: BLE001
            return False
        return True


def generate(seed: int, n_nodes: int | None = None, nparams: int | None = None,
             c16_only: bool = False) -> dict[str, Any]:
    rng = random.Random(seed ^ 0xABC)
    return SymGen(seed, n_nodes or rng.choice([3, 4, 6, 8, 10]), nparams,
                  SymGen.C16_FAMILIES if c16_only else None).generate()
