"""Greedy spec shrinker: keeps a ProgSpec failing with the same violation key while
removing outputs, pruning unreachable nodes and replacing sub-DAGs by fresh inputs."""
from __future__ import annotations

import copy
from typing import Any, Callable

import numpy as np

from vf.gen import progspec as ps


def prune(spec: dict[str, Any]) -> dict[str, Any]:
    byid = {n["id"]: n for n in spec["nodes"]}
    need: set[int] = set()
    stack = list(spec["outputs"].values())
    while stack:
        i = stack.pop()
        if i in need:
            continue
        need.add(i)
        if i in byid:
            stack.extend(a for a in byid[i]["args"] if ps.is_ref(a))
    out = copy.deepcopy(spec)
    out["nodes"] = [n for n in out["nodes"] if n["id"] in need]
    out["inputs"] = [i for i in out["inputs"] if i["id"] in need]
    return out


def shrink(spec: dict[str, Any], fails: Callable[[dict[str, Any]], bool],
           max_rounds: int = 8, vset: int = 0, budget_evals: int = 1500) -> dict[str, Any]:
    # the budget is LOGICAL (candidate evaluations), not wall-clock: the minimal form -- and
    # with it the key a known finding is matched by -- must not depend on machine load
    left = [budget_evals]
    fails0 = fails

    def fails(s: dict[str, Any]) -> bool:  # noqa: F811 -- budgeted wrapper
        if left[0] <= 0:
            return False          # out of minimisation budget: keep what we have
        left[0] -= 1
        return fails0(s)
    cur = prune(spec)
    if not fails(cur):
        # the failure is tied to a node that does not feed an output (e.g. a
        # construction error): make the earliest such node the only output
        cur = None
        for n in spec["nodes"]:
            cand = copy.deepcopy(spec)
            cand["outputs"] = {"out0": n["id"]}
            cand = prune(cand)
            try:
                if fails(cand):
                    cur = cand
                    break
            except Exception:  # noqa: BLE001
                pass
        if cur is None:
            return spec
    for _ in range(max_rounds):
        changed = False
        # 1. single outputs
        if len(cur["outputs"]) > 1:
            for k in list(cur["outputs"]):
                cand = copy.deepcopy(cur)
                cand["outputs"] = {k: cur["outputs"][k]}
                cand = prune(cand)
                if fails(cand):
                    cur, changed = cand, True
                    break
        # 2. replace a node by a fresh input of the same shape/dtype
        try:
            sh = ps.Shadow(cur, vset)
        except Exception:  # noqa: BLE001
            sh = None
        if sh is not None:
            for n in list(cur["nodes"]):
                v = sh.vals.get(n["id"])
                if v is None or isinstance(v, dict):
                    continue
                v = np.asarray(v)
                if n["id"] in cur["outputs"].values() and len(cur["nodes"]) > 1 and \
                        all(n["id"] != a for m in cur["nodes"] for a in m["args"]
                            if ps.is_ref(a)):
                    continue
                cand = copy.deepcopy(cur)
                cand["nodes"] = [m for m in cand["nodes"] if m["id"] != n["id"]]
                cand["inputs"].append({"id": n["id"], "kind": "ph", "name": f"x{n['id']}",
                                       "shape": list(v.shape), "dtype": v.dtype.name,
                                       "data": v.reshape(-1).tolist()
                                       if v.dtype.kind != "c" else None,
                                       "pool": "dyadic"})
                if cand["inputs"][-1]["data"] is None:
                    del cand["inputs"][-1]["data"]
                cand = prune(cand)
                if len(cand["nodes"]) < len(cur["nodes"]) and fails(cand):
                    cur, changed = cand, True
                    break
        # 3. use an output deeper in the graph: make an operand of the output the output
        if not changed:
            byid = {n["id"]: n for n in cur["nodes"]}
            for k, oid in list(cur["outputs"].items()):
                if oid in byid:
                    for a in byid[oid]["args"]:
                        if ps.is_ref(a) and a in byid:
                            cand = copy.deepcopy(cur)
                            cand["outputs"] = {k: a}
                            cand = prune(cand)
                            if fails(cand):
                                cur, changed = cand, True
                                break
                if changed:
                    break
        if not changed:
            break
    return cur
