"""Multi-rank program generator (DESIGN.md §2.7).

A *global description* is a list of items in one global construction order; every item
lives on one rank:

  {"id", "rank", "kind": "in",   "name", "shape"}
  {"id", "rank", "kind": "op",   "op", "args": [ids | scalars], "stored": bool}
  {"id", "rank", "kind": "recv", "comm": k, "src", "tag", "shape"}
  {"id", "rank", "kind": "send", "comm": k, "dest", "tag", "data": id, "stapled": id}

A ``send`` item IS the send-ref holder: later items on that rank that use it see the value
of ``stapled``.  Messages are created in the global order, so the global data flow is
acyclic by construction; the **global reference** is plain NumPy evaluation of the items
in that order with every receive resolved to the value of the matching payload.  All
arithmetic is exact (small dyadic float64 values, + - * and index shuffles), so outputs are
compared bitwise.

``faults(desc)`` enumerates every single fault of C10's quantifier at every communication
operation; ``well_formed(desc)`` decides -- from the description alone -- whether sends and
receives match one to one, no rank talks to itself and the communication dependency graph
is acyclic.
"""
from __future__ import annotations

import copy
import random
from typing import Any

import numpy as np

TAG_STYLES = ["int", "str", "tuple", "frozenset", "mixed", "dataclass"]


def enc_tag(style: str, k: int, rng: random.Random) -> Any:
    """JSON-able description of a (hashable) communication tag."""
    if style == "mixed":
        style = rng.choice(["int", "str", "tuple", "frozenset", "dataclass"])
    if style == "int":
        # (around the base_tag 42 the checks use: a numbering that lets integer tags pass
        # through unchanged collides with the integers it hands out)
        return ["int", 40 + k]
    if style == "str":
        return ["str", f"t{k}"]
    if style == "tuple":
        return ["tuple", ["halo", k]]
    if style == "frozenset":
        return ["frozenset", [f"a{k}", k]]
    return ["dataclass", k]


def dec_tag(t: Any) -> Any:
    from vf.vtags import CommTag
    kind, v = t
    if kind == "int":
        return int(v)
    if kind == "str":
        return str(v)
    if kind == "tuple":
        return tuple(v)
    if kind == "frozenset":
        return frozenset(v)
    return CommTag(int(v))


def canon_tag(t: Any) -> str:
    """Process-independent text of a tag (repr of a frozenset follows the hash seed)."""
    if isinstance(t, frozenset):
        return "frozenset{" + ",".join(sorted(repr(x) for x in t)) + "}"
    return repr(t)


UNARY = ["neg", "rev", "roll", "double", "square"]
BINARY = ["add", "sub", "mul", "csrdiag"]


def np_op(op: str, a: list[Any]) -> np.ndarray:
    if op == "neg":
        return -a[0]
    if op == "rev":
        return a[0][::-1].copy()
    if op == "roll":
        return np.roll(a[0], 1)
    if op == "double":
        return a[0] * 2.0
    if op == "square":
        return a[0] * a[0]
    if op == "add":
        return a[0] + a[1]
    if op == "sub":
        return a[0] - a[1]
    if op == "mul":
        return a[0] * a[1]
    if op == "sumall":
        return a[0] * 0.0 + np.sum(a[0])
    if op == "csrdiag":
        # sparse anti-diagonal matrix (values (i+1)/2) times a[1]; a[0] enters the row starts
        # only (multiplied by zero)
        n = a[1].shape[0]
        return (np.arange(n) + 1) * 0.5 * a[1][::-1]
    raise ValueError(op)


def pt_op(op: str, a: list[Any]) -> Any:
    import pytato as pt
    if op == "neg":
        return -a[0]
    if op == "rev":
        return a[0][::-1]
    if op == "roll":
        return pt.roll(a[0], 1)
    if op == "double":
        return a[0] * 2.0
    if op == "square":
        return a[0] * a[0]
    if op == "add":
        return a[0] + a[1]
    if op == "sub":
        return a[0] - a[1]
    if op == "mul":
        return a[0] * a[1]
    if op == "sumall":
        return a[0] * 0.0 + pt.sum(a[0])
    if op == "csrdiag":
        # a CSR product whose row_starts depend on a[0] (a received / stored array in many
        # programs) while values and column indices are input-free expressions
        n = int(a[1].shape[0])
        z = pt.less(a[0], a[0]).astype(np.int64)        # zeros that depend on a[0]
        rs = pt.arange(n + 1, dtype=np.int64) + pt.concatenate([z, z[:1]])
        # (other start and step: an int64 and a float64 arange with equal start or step would be
        # conflated when inlined into one expression -- DESIGN.md 10.7)
        vals = pt.arange(2, 2 * n + 2, 2, dtype=np.float64) * 0.25
        cols = (n - 1) - pt.arange(n, dtype=np.int64)
        return pt.make_csr_matrix((n, n), vals, cols, rs) @ a[1]
    raise ValueError(op)


PATTERNS = ["random", "ring", "star", "chain", "multi", "forward", "random"]


def generate(seed: int, nranks: int | None = None, ncomm: int | None = None) -> dict[str, Any]:
    rng = random.Random(seed)
    R = nranks if nranks is not None else rng.choice([1, 2, 2, 3, 3, 4])
    K = ncomm if ncomm is not None else rng.choice([0, 1, 2, 2, 3, 3, 4, 5, 6])
    if R == 1:
        K = 0
    n = rng.choice([1, 2, 3, 4])
    pattern = rng.choice(PATTERNS)
    tag_style = rng.choice(TAG_STYLES)
    items: list[dict[str, Any]] = []
    avail: dict[int, list[int]] = {r: [] for r in range(R)}
    nid = [0]

    def add(it: dict[str, Any]) -> int:
        it["id"] = nid[0]
        nid[0] += 1
        items.append(it)
        avail[it["rank"]].append(it["id"])
        return it["id"]

    def local_op(r: int) -> int:
        if not avail[r] or rng.random() < 0.25:
            k = sum(1 for it in items if it["rank"] == r and it["kind"] == "in")
            return add({"rank": r, "kind": "in", "name": f"r{r}_x{k}", "shape": [n]})
        if rng.random() < 0.45:
            op = rng.choice(UNARY + ["sumall"])
            args = [rng.choice(avail[r][-6:])]
        else:
            op = rng.choice(BINARY)
            args = [rng.choice(avail[r][-6:]), rng.choice(avail[r])]
        return add({"rank": r, "kind": "op", "op": op, "args": args,
                    "stored": rng.random() < 0.25})

    for r in range(R):
        for _ in range(rng.randrange(1, 4)):
            local_op(r)
    used_keys: set[tuple[int, int, str]] = set()
    pair_tag_count: dict[tuple[int, int], int] = {}
    last_recv: dict[int, int] = {}
    k0 = 0
    if R >= 2 and K >= 3 and rng.random() < 0.3:
        # three-round exchange whose FIRST message carries (an expression of) the send holder
        # of the THIRD: valid, because a holder's value is the data passed through it
        #   C: a->b  payload h+h   (h = holder of A2)      round 1
        #   B: b->a  payload f(recv C)                      round 2
        #   A2: a->b payload g(recv B), stapled to x        round 3
        a = rng.randrange(R)
        b = rng.choice([x for x in range(R) if x != a])
        tg = [enc_tag("str", 900 + j, rng) for j in range(3)]
        if not avail[a]:
            local_op(a)
        xa = rng.choice(avail[a])
        # ids are assigned in list order; the receive of B is referenced before it exists in
        # the list (receives have no operands; builders create them first)
        base_id = nid[0]
        rid_b = base_id + 7          # see the order of the add() calls below
        d_a2 = add({"rank": a, "kind": "op", "op": "neg", "args": [rid_b], "stored": False})
        h = add({"rank": a, "kind": "send", "comm": 2, "dest": b, "tag": tg[2], "data": d_a2,
                 "stapled": xa})
        pc = add({"rank": a, "kind": "op", "op": "add", "args": [h, h], "stored": False})
        add({"rank": a, "kind": "send", "comm": 0, "dest": b, "tag": tg[0], "data": pc,
             "stapled": pc})
        rc = add({"rank": b, "kind": "recv", "comm": 0, "src": a, "tag": tg[0], "shape": [n]})
        pb = add({"rank": b, "kind": "op", "op": "double", "args": [rc], "stored": False})
        sb = add({"rank": b, "kind": "send", "comm": 1, "dest": a, "tag": tg[1], "data": pb,
                  "stapled": rc})
        got = add({"rank": a, "kind": "recv", "comm": 1, "src": b, "tag": tg[1], "shape": [n]})
        assert got == rid_b
        ra2 = add({"rank": b, "kind": "recv", "comm": 2, "src": a, "tag": tg[2], "shape": [n]})
        add({"rank": b, "kind": "op", "op": "add", "args": [ra2, sb], "stored": False})
        for t in tg:
            pass
        for (s_, d_, t_) in ((a, b, tg[0]), (b, a, tg[1]), (a, b, tg[2])):
            used_keys.add((s_, d_, repr(t_)))
        last_recv[a] = got
        last_recv[b] = ra2
        k0 = 3
        desc_motif = True
    for k in range(k0, K):
        if pattern == "ring":
            s = k % R
            d = (s + 1) % R
        elif pattern == "star":
            s, d = (0, 1 + k % (R - 1)) if k % 2 == 0 else (1 + k % (R - 1), 0)
        elif pattern == "chain":
            s = min(k, R - 2) if k < R - 1 else rng.randrange(R - 1)
            d = s + 1
        elif pattern == "multi":
            s, d = 0, 1
        else:
            s = rng.randrange(R)
            d = rng.choice([x for x in range(R) if x != s])
        # a little local work first
        for _ in range(rng.randrange(0, 3)):
            local_op(rng.randrange(R))
        # payload: forwarded data depends on what was received before
        if (pattern in ("forward", "ring", "chain") or rng.random() < 0.4) and s in last_recv \
                and rng.random() < 0.8:
            base = last_recv[s]
            if rng.random() < 0.5:
                data = base                       # received data forwarded unchanged
            else:
                data = add({"rank": s, "kind": "op", "op": rng.choice(UNARY), "args": [base],
                            "stored": rng.random() < 0.2})
        else:
            if not avail[s]:
                local_op(s)
            data = rng.choice(avail[s])
        # tag: same tag may be reused between OTHER pairs; never twice for one pair
        j = pair_tag_count.get((s, d), 0)
        pair_tag_count[(s, d)] = j + 1
        tag = enc_tag(tag_style, j if rng.random() < 0.7 else 10 * k + j, rng)
        while (s, d, repr(tag)) in used_keys:
            tag = enc_tag(tag_style, 1000 + k, rng)
        used_keys.add((s, d, repr(tag)))
        stapled = rng.choice(avail[s][-5:]) if rng.random() < 0.7 else data
        add({"rank": s, "kind": "send", "comm": k, "dest": d, "tag": tag, "data": data,
             "stapled": stapled})
        rid = add({"rank": d, "kind": "recv", "comm": k, "src": s, "tag": tag, "shape": [n]})
        last_recv[d] = rid
        # use the received data (or not: "unused except via a send holder" cases arise when
        # it is only forwarded / stapled)
        if rng.random() < 0.6:
            other = rng.choice(avail[d])
            add({"rank": d, "kind": "op", "op": rng.choice(BINARY), "args": [rid, other],
                 "stored": rng.random() < 0.25})
    for r in range(R):
        for _ in range(rng.randrange(0, 3)):
            local_op(r)
    desc = {"nranks": R, "n": n, "items": items, "pattern": pattern, "tag_style": tag_style,
            "seed": seed, "outputs": {}}
    choose_outputs(desc, rng)
    return desc


def users_of(desc: dict[str, Any]) -> dict[int, list[int]]:
    u: dict[int, list[int]] = {}
    for it in desc["items"]:
        if it["kind"] == "op":
            for a in it["args"]:
                if isinstance(a, int):
                    u.setdefault(a, []).append(it["id"])
        elif it["kind"] == "send":
            u.setdefault(it["data"], []).append(it["id"])
            u.setdefault(it["stapled"], []).append(it["id"])
    return u


def choose_outputs(desc: dict[str, Any], rng: random.Random) -> None:
    """Every send holder must be reachable from an output of its rank; sinks become outputs;
    sometimes an input or a receive is an output unchanged, or one node has two names."""
    R = desc["nranks"]
    u = users_of(desc)
    outs: dict[str, dict[str, int]] = {}
    for r in range(R):
        mine = [it for it in desc["items"] if it["rank"] == r]
        sinks = [it["id"] for it in mine if it["id"] not in u]
        names: dict[str, int] = {}
        for j, s in enumerate(sinks):
            names[f"out{j}"] = s
        if mine and rng.random() < 0.3:
            names[f"out{len(names)}"] = rng.choice(mine)["id"]     # any node, maybe an input
        if names and rng.random() < 0.15:
            names[f"out{len(names)}"] = next(iter(names.values()))  # one array, two names
        if not names and mine:
            names["out0"] = mine[-1]["id"]
        outs[str(r)] = names
    desc["outputs"] = outs


# ---------------------------------------------------------------- evaluation / building

def input_values(desc: dict[str, Any]) -> dict[str, np.ndarray]:
    rng = np.random.default_rng(desc["seed"] & 0xFFFFFFFF)
    vals = {}
    for it in desc["items"]:
        if it["kind"] == "in" or it["kind"] == "dropped_recv":
            vals[it["name"]] = rng.integers(-4, 5, size=tuple(it["shape"])).astype(np.float64) / 2
    return vals


def reference(desc: dict[str, Any]) -> dict[int, dict[str, np.ndarray]]:
    """Global data-flow evaluation: per rank, output name -> value.  Demand-driven (the
    value of a send holder is its stapled operand; a receive takes the value of the matching
    payload), so the item list need not be in data-flow order."""
    iv = input_values(desc)
    byid = {it["id"]: it for it in desc["items"]}
    send_of = {(it["rank"], it["dest"], repr(it["tag"])): it
               for it in desc["items"] if it["kind"] == "send"}
    val: dict[int, np.ndarray] = {}
    active: set[int] = set()

    def ev(i: int) -> np.ndarray:
        if i in val:
            return val[i]
        if i in active:
            raise ValueError("cyclic data flow")
        active.add(i)
        it = byid[i]
        k = it["kind"]
        if k in ("in", "dropped_recv"):
            r = iv[it["name"]]
        elif k == "op":
            r = np_op(it["op"], [ev(a) if isinstance(a, int) else a for a in it["args"]])
        elif k == "send":
            r = ev(it["stapled"])
        else:
            r = ev(send_of[(it["src"], it["rank"], repr(it["tag"]))]["data"])
        active.discard(i)
        val[i] = r
        return r
    return {int(r): {name: ev(i) for name, i in names.items()}
            for r, names in desc["outputs"].items()}


def build_rank(desc: dict[str, Any], rank: int) -> Any:
    """The pytato DictOfNamedArrays of *rank* (public API only)."""
    import pytato as pt
    from pytato.distributed.nodes import (
        make_distributed_recv,
        make_distributed_send,
        make_distributed_send_ref_holder,
    )
    node: dict[int, Any] = {}
    send_objs: dict[int, Any] = {}
    byid_all = {it["id"]: it for it in desc["items"]}
    order = [it for it in desc["items"] if it["rank"] == rank]
    # receives have no operands: build them first so that fault-injected "back edges"
    # (a payload that uses a later receive) can be expressed
    for it in order:
        if it["kind"] == "recv":
            node[it["id"]] = make_distributed_recv(
                src_rank=it["src"], comm_tag=dec_tag(it["tag"]), shape=tuple(it["shape"]),
                dtype=np.float64)
            if it.get("variant"):
                from vf.vtags import VTag
                node[it["id"]] = node[it["id"]].tagged(VTag(it["id"]))
        elif it["kind"] == "dropped_recv":
            node[it["id"]] = pt.make_placeholder(it["name"], tuple(it["shape"]), np.float64)
    for it in order:
        k = it["kind"]
        if k == "dropped_recv":
            continue
        if k in ("in",):
            node[it["id"]] = pt.make_placeholder(it["name"], tuple(it["shape"]), np.float64)
        elif k == "op":
            r = pt_op(it["op"], [node[a] if isinstance(a, int) else a for a in it["args"]])
            if it.get("stored"):
                r = r.tagged(pt.tags.ImplStored())
            node[it["id"]] = r
        elif k == "send":
            twin = byid_all.get(it.get("same_send_as"))
            if it.get("same_send_as") in send_objs and twin is not None and all(
                    twin.get(f) == it.get(f) for f in ("dest", "tag", "data")):
                # (only while the two items still describe the same message: a second
                # fault may have redirected or retagged one of them)
                # the SAME DistributedSend object stapled a second time
                node[it["id"]] = make_distributed_send_ref_holder(
                    send_objs[it["same_send_as"]], node[it["stapled"]])
            else:
                send_objs[it["id"]] = make_distributed_send(
                    node[it["data"]], dest_rank=it["dest"], comm_tag=dec_tag(it["tag"]))
                node[it["id"]] = make_distributed_send_ref_holder(
                    send_objs[it["id"]], node[it["stapled"]])
    outs = {name: node[i] for name, i in desc["outputs"][str(rank)].items()}
    # (the partitioner's mappers check for duplicates: hand over a duplicate-free graph, as
    # pytato's own distributed examples do)
    return pt.transform.deduplicate(pt.make_dict_of_named_arrays(outs))


# ---------------------------------------------------------------- well-formedness, faults

def comm_ops(desc: dict[str, Any]) -> tuple[dict[Any, list[dict[str, Any]]],
                                            dict[Any, list[dict[str, Any]]]]:
    sends: dict[Any, list[dict[str, Any]]] = {}
    recvs: dict[Any, list[dict[str, Any]]] = {}
    live = reachable(desc)
    for it in desc["items"]:
        if it["id"] not in live:
            continue
        if it["kind"] == "send":
            # value semantics again: two holders with the same payload, destination, tag and
            # passthrough are ONE node, i.e. one send (arises when a fault redirects a send
            # onto a twin)
            lst = sends.setdefault((it["rank"], it["dest"], repr(it["tag"])), [])
            if not any(value_key(desc, x["id"]) == value_key(desc, it["id"]) for x in lst):
                lst.append(it)
        elif it["kind"] == "recv":
            lst = recvs.setdefault((it["src"], it["rank"], repr(it["tag"])), [])
            # value semantics: structurally identical receive nodes ARE one node (one
            # receive); only distinguishable ones (other shape / tags) are duplicates
            ident = (tuple(it["shape"]), it["id"] if it.get("variant") else None)
            if not any((tuple(x["shape"]), x["id"] if x.get("variant") else None) == ident
                       for x in lst):
                lst.append(it)
    return sends, recvs


def value_key(desc: dict[str, Any], iid: int) -> Any:
    """Structural identity of the array an item denotes (pytato arrays compare by value)."""
    byid = {it["id"]: it for it in desc["items"]}
    memo: dict[int, Any] = {}

    def rec(i: Any) -> Any:
        if not isinstance(i, int) or isinstance(i, bool):
            return ("const", repr(i))
        if i in memo:
            return memo[i]
        it = byid[i]
        k = it["kind"]
        if k == "op":
            r: Any = ("op", it["op"], tuple(rec(a) if isinstance(a, int) and a in byid
                                             else ("const", repr(a)) for a in it["args"]),
                      bool(it.get("stored")), it["rank"])
        elif k == "send":
            r = ("send", it["rank"], it["dest"], repr(it["tag"]), rec(it["data"]),
                 rec(it["stapled"]))
        elif k == "recv":
            r = ("recv", it["rank"], it["src"], repr(it["tag"]), tuple(it["shape"]),
                 it["id"] if it.get("variant") else None)
        else:
            r = (k, it["id"])
        memo[i] = r
        return r
    return rec(iid)


def reachable(desc: dict[str, Any]) -> set[int]:
    """Items reachable from the outputs of their rank (dead code is eliminated before
    partitioning, so unreachable communication does not exist for pytato)."""
    byid = {it["id"]: it for it in desc["items"]}
    seen: set[int] = set()
    work = [i for names in desc["outputs"].values() for i in names.values()]
    while work:
        i = work.pop()
        if i in seen:
            continue
        seen.add(i)
        it = byid[i]
        if it["kind"] == "op":
            work.extend(a for a in it["args"] if isinstance(a, int))
        elif it["kind"] == "send":
            work.extend([it["data"], it["stapled"]])
    return seen


def deps_on_recvs(desc: dict[str, Any], start: int) -> set[int]:
    """ids of recv items the value of item *start* depends on (rank-local data flow)."""
    byid = {it["id"]: it for it in desc["items"]}
    seen: set[int] = set()
    out: set[int] = set()
    work = [start]
    while work:
        i = work.pop()
        if i in seen:
            continue
        seen.add(i)
        it = byid[i]
        if it["kind"] == "recv":
            out.add(i)
        elif it["kind"] == "op":
            work.extend(a for a in it["args"] if isinstance(a, int))
        elif it["kind"] == "send":
            work.append(it["stapled"])       # value-wise a holder is its stapled operand
    return out


def well_formed(desc: dict[str, Any]) -> tuple[bool, str]:
    sends, recvs = comm_ops(desc)
    for key, lst in sends.items():
        if key[0] == key[1]:
            return False, "self-send"
        if len(lst) > 1:
            return False, "duplicate-send"
    for key, lst in recvs.items():
        if key[0] == key[1]:
            return False, "self-recv"
        if len(lst) > 1:
            return False, "duplicate-recv"
    for key in sends:
        if key not in recvs:
            return False, "missing-recv"
    for key in recvs:
        if key not in sends:
            return False, "missing-send"
    # cycle among communication operations: comm A needs comm B if A's payload depends on
    # the data received by B
    byid = {it["id"]: it for it in desc["items"]}
    need: dict[Any, set[Any]] = {}
    for key, lst in sends.items():
        s = lst[0]
        need[key] = set()
        for rid in deps_on_recvs(desc, s["data"]):
            r = byid[rid]
            need[key].add((r["src"], r["rank"], repr(r["tag"])))
    state: dict[Any, int] = {}

    def dfs(k: Any) -> bool:
        if state.get(k) == 1:
            return True
        if state.get(k) == 2:
            return False
        state[k] = 1
        for m in need.get(k, ()):
            if dfs(m):
                return True
        state[k] = 2
        return False
    for k in need:
        if dfs(k):
            return False, "cycle"
    return True, "ok"


def affected_ranks(desc: dict[str, Any]) -> set[int]:
    """Ranks that own a defective communication operation (either end of an unmatched or
    duplicated message, the rank of a self-send); for a cycle: every communicating rank."""
    sends, recvs = comm_ops(desc)
    out: set[int] = set()
    for key, lst in list(sends.items()) + list(recvs.items()):
        if key[0] == key[1] or len(lst) > 1:
            out.update(key[:2])
    for key in sends:
        if key not in recvs:
            out.update(key[:2])
    for key in recvs:
        if key not in sends:
            out.update(key[:2])
    if not out:
        for key in list(sends) + list(recvs):
            out.update(key[:2])
    return out


def fresh_tag(desc: dict[str, Any]) -> Any:
    used = {repr(it["tag"]) for it in desc["items"] if "tag" in it}
    k = 7000
    while repr(["int", k]) in used:
        k += 1
    return ["int", k]


def faults(desc: dict[str, Any]) -> list[tuple[str, dict[str, Any]]]:
    """[(fault name, faulted description)] -- every single fault at every comm operation."""
    out: list[tuple[str, dict[str, Any]]] = []
    R = desc["nranks"]
    comm_items = [it for it in desc["items"] if it["kind"] in ("send", "recv")]
    live = reachable(desc)
    for it in comm_items:
        if it["id"] not in live:
            continue
        k = it["kind"]
        idx = next(j for j, x in enumerate(desc["items"]) if x["id"] == it["id"])
        # ---- drop
        d = copy.deepcopy(desc)
        x = d["items"][idx]
        if k == "send":
            # the holder disappears: its users see the stapled operand
            x.update({"kind": "op", "op": "add", "args": [x["stapled"], 0.0], "stored": False})
        else:
            x.update({"kind": "dropped_recv", "name": f"r{x['rank']}_lost{x['id']}"})
        out.append((f"drop-{k}", d))
        # ---- duplicate
        d = copy.deepcopy(desc)
        x = copy.deepcopy(d["items"][idx])
        nid = max(i["id"] for i in d["items"]) + 1
        x["id"] = nid
        d["items"].insert(idx + 1, x)
        if k == "send":
            x["stapled"] = it["id"]          # chain the second holder on the first
            # users of the first holder keep using it; make the duplicate reachable
            names = d["outputs"][str(it["rank"])]
            names[f"dup{nid}"] = nid
            # the same duplicate built by stapling the very same send object twice
            d2 = copy.deepcopy(d)
            next(i for i in d2["items"] if i["id"] == nid)["same_send_as"] = it["id"]
            out.append(("duplicate-send-same-object", d2))
        else:
            # a second, DISTINGUISHABLE receive for the same (source, tag): structurally equal
            # receive nodes are one node (value semantics), i.e. one receive
            x["variant"] = True
            names = d["outputs"][str(it["rank"])]
            names[f"dup{nid}"] = nid
        out.append((f"duplicate-{k}", d))
        # ---- retag
        d = copy.deepcopy(desc)
        d["items"][idx]["tag"] = fresh_tag(desc)
        out.append((f"retag-{k}", d))
        # ---- redirect (to every other rank incl. self)
        for other in range(R):
            cur = it["dest"] if k == "send" else it["src"]
            if other == cur:
                continue
            d = copy.deepcopy(desc)
            d["items"][idx]["dest" if k == "send" else "src"] = other
            nm = "self" if other == it["rank"] else "redirect"
            out.append((f"{nm}-{k}", d))
    # ---- a dependency closing a cross-rank cycle: payload of an EARLIER send on rank s uses
    # a LATER receive on rank s whose message depends (transitively) on that send
    byid = {it["id"]: it for it in desc["items"]}
    sends = [it for it in desc["items"] if it["kind"] == "send" and it["id"] in live]
    recvs = [it for it in desc["items"] if it["kind"] == "recv" and it["id"] in live]
    for s in sends:
        for r in recvs:
            if r["rank"] != s["rank"] or r["id"] < s["id"]:
                continue
            if not influenced_by(desc, s, r):
                continue
            d = copy.deepcopy(desc)
            nid = max(i["id"] for i in d["items"]) + 1
            sidx = next(j for j, x in enumerate(d["items"]) if x["id"] == s["id"])
            d["items"].insert(sidx, {"id": nid, "rank": s["rank"], "kind": "op", "op": "add",
                                     "args": [s["data"], r["id"]], "stored": False})
            d["items"][sidx + 1]["data"] = nid
            out.append(("cycle", d))
    del byid
    return out


def influenced_by(desc: dict[str, Any], send: dict[str, Any], recv: dict[str, Any]) -> bool:
    """Does the message received by *recv* depend, through any chain of messages, on the
    message sent by *send*?"""
    byid = {it["id"]: it for it in desc["items"]}
    send_of: dict[Any, dict[str, Any]] = {}
    for it in desc["items"]:
        if it["kind"] == "send":
            send_of[(it["rank"], it["dest"], repr(it["tag"]))] = it
    target = (send["rank"], send["dest"], repr(send["tag"]))
    seen: set[Any] = set()
    work = [(recv["src"], recv["rank"], repr(recv["tag"]))]
    while work:
        k = work.pop()
        if k in seen:
            continue
        seen.add(k)
        if k == target:
            return True
        s = send_of.get(k)
        if s is None:
            continue
        for rid in deps_on_recvs(desc, s["data"]):
            r = byid[rid]
            work.append((r["src"], r["rank"], repr(r["tag"])))
    return False
