"""Shared runner plumbing: repo import, seeds, shard execution in subprocesses,
verdict folding, known-findings matching, evidence writer.

Everything here is stdlib + numpy.  pytato is always imported from
``$VERIF_REPO`` (default ``/repo``) so that the checks run the *current working
tree* and can be pointed at a mutated scratch copy.
"""
from __future__ import annotations

import hashlib
import json
import os
import random
import subprocess
import sys
import tempfile
import time
from pathlib import Path
from typing import Any

VERIF_ROOT = Path(__file__).resolve().parent.parent
REPO = os.environ.get("VERIF_REPO", "/repo")
PYTHON = "/venv/bin/python" if os.path.exists("/venv/bin/python") else sys.executable
NCPU = int(os.environ.get("VERIF_NCPU", os.cpu_count() or 4))

EXIT_OK, EXIT_VIOLATION, EXIT_INCONCLUSIVE = 0, 1, 2


def repo_setup() -> None:
    """Make ``import pytato`` resolve to $VERIF_REPO and nothing else."""
    repo = os.path.realpath(REPO)
    if sys.path[0] != repo:
        sys.path.insert(0, repo)
    import warnings
    warnings.filterwarnings("ignore")
    os.environ.setdefault("PYTATO_VERIF", "1")
    # hermetic: no on-disk loopy/pytools caches shared between runs
    os.environ["LOOPY_NO_CACHE"] = "1"
    os.environ["CG_NO_CACHE"] = "1"
    import pytato  # noqa: F401
    got = os.path.realpath(os.path.dirname(os.path.dirname(pytato.__file__)))
    if got != repo:
        raise RuntimeError(f"pytato imported from {got}, expected {repo}")


def stable_hash(obj: Any, n: int = 16) -> str:
    s = json.dumps(obj, sort_keys=True, default=repr)
    return hashlib.sha1(s.encode()).hexdigest()[:n]


def sub_seed(seed: int, *parts: Any) -> int:
    h = hashlib.sha256(repr((seed, *parts)).encode()).digest()
    return int.from_bytes(h[:8], "little")


def rng_for(seed: int, *parts: Any) -> random.Random:
    return random.Random(sub_seed(seed, *parts))


def jsonable(x: Any, depth: int = 0) -> Any:
    """Best-effort conversion of witnesses to JSON."""
    import numpy as np
    if depth > 8:
        return repr(x)[:200]
    if isinstance(x, (str, int, float, bool)) or x is None:
        if isinstance(x, float) and (x != x or x in (float("inf"), float("-inf"))):
            return repr(x)
        return x
    if isinstance(x, np.generic):
        return jsonable(x.item(), depth + 1) if not isinstance(x, np.complexfloating) \
            else repr(x.item())
    if isinstance(x, complex):
        return repr(x)
    if isinstance(x, np.ndarray):
        if x.size <= 64:
            return {"ndarray": jsonable(x.tolist(), depth + 1),
                    "dtype": str(x.dtype), "shape": list(x.shape)}
        return {"ndarray": "<%d elements>" % x.size, "dtype": str(x.dtype),
                "shape": list(x.shape)}
    if isinstance(x, np.dtype):
        return str(x)
    if isinstance(x, dict):
        return {str(k): jsonable(v, depth + 1) for k, v in x.items()}
    if isinstance(x, (list, tuple, set, frozenset)):
        return [jsonable(v, depth + 1) for v in x]
    return repr(x)[:400]


# ---------------------------------------------------------------------------
# shard-side collector


class Collector:
    """What one shard (subprocess) observed.  Serialised to JSON for the parent."""

    MAX_SAMPLES = 4
    MAX_VIOL_PER_KEY = 3

    def __init__(self) -> None:
        self.evaluations = 0
        self.nontrivial: set[str] = set()
        self.disjoint_nontrivial = 0
        self.samples: list[Any] = []
        self.counters: dict[str, int] = {}
        self.hist: dict[str, dict[str, int]] = {}
        self.violations: list[dict[str, Any]] = []
        self._viol_per_key: dict[str, int] = {}
        self.viol_counts: dict[str, int] = {}
        self.inconclusive: list[str] = []
        self.notes: list[str] = []

    # -- counting
    def case(self, case_hash: str | None = None, nontrivial: bool = False,
             sample: Any = None) -> None:
        self.evaluations += 1
        if nontrivial:
            if case_hash is None:
                self.disjoint_nontrivial += 1
            else:
                self.nontrivial.add(case_hash)
            if sample is not None and len(self.samples) < self.MAX_SAMPLES:
                self.samples.append(jsonable(sample))

    def count(self, name: str, n: int = 1) -> None:
        self.counters[name] = self.counters.get(name, 0) + n

    def histo(self, table: str, key: str, n: int = 1) -> None:
        t = self.hist.setdefault(table, {})
        t[key] = t.get(key, 0) + n

    # -- verdict material
    def violation(self, key: str, what: str, witness: Any) -> None:
        """*key* is the mechanism key (``Cxx:mechanism[:cell]``)."""
        self.viol_counts[key] = self.viol_counts.get(key, 0) + 1
        k = self._viol_per_key.get(key, 0)
        if k < self.MAX_VIOL_PER_KEY:
            self._viol_per_key[key] = k + 1
            self.violations.append({"key": key, "what": what,
                                    "witness": jsonable(witness)})

    def inconc(self, reason: str) -> None:
        if reason not in self.inconclusive:
            self.inconclusive.append(reason)

    def to_json(self) -> dict[str, Any]:
        return {"evaluations": self.evaluations,
                "nontrivial": sorted(self.nontrivial),
                "disjoint_nontrivial": self.disjoint_nontrivial,
                "samples": self.samples, "counters": self.counters,
                "hist": self.hist, "violations": self.violations,
                "viol_counts": self.viol_counts,
                "inconclusive": self.inconclusive, "notes": self.notes}


# ---------------------------------------------------------------------------
# parent side


def load_known_findings() -> tuple[dict[str, dict[str, Any]], list[dict[str, Any]]]:
    p = VERIF_ROOT / "known_findings.json"
    if not p.exists():
        return {}, []
    data = json.loads(p.read_text())
    known = {e["key"]: e for e in data.get("known", [])}
    return known, data.get("fixed", [])


def match_known(key: str, known: dict[str, dict[str, Any]]) -> str | None:
    """Exact key, or an entry whose ``key_regex`` fully matches *key*."""
    import re
    if key in known:
        return key
    for k, e in known.items():
        rx = e.get("key_regex")
        if rx and re.fullmatch(rx, key):
            return k
    return None


def _run_shard_subprocess(prop: str, shard: dict[str, Any], timeout: float,
                          outdir: str, idx: int) -> subprocess.Popen[bytes]:
    spec_path = os.path.join(outdir, f"shard{idx}.in.json")
    out_path = os.path.join(outdir, f"shard{idx}.out.json")
    with open(spec_path, "w") as f:
        json.dump(shard, f)
    env = dict(os.environ)
    env.setdefault("PYTHONHASHSEED", "0")
    env["PYTHONPATH"] = str(VERIF_ROOT) + os.pathsep + env.get("PYTHONPATH", "")
    env["OMP_NUM_THREADS"] = "1"
    env["OPENBLAS_NUM_THREADS"] = "1"
    env["MKL_NUM_THREADS"] = "1"
    log = open(os.path.join(outdir, f"shard{idx}.log"), "wb")
    return subprocess.Popen(
        [PYTHON, "-X", "faulthandler", "-m", "vf.cli", prop, "--shard", spec_path,
         "--out", out_path],
        cwd=str(VERIF_ROOT), env=env, stdout=log, stderr=subprocess.STDOUT)


def run_check(prop: str, module: Any, tier: str, seed: int) -> int:
    """Plan shards, run them in subprocesses, fold verdict, write evidence."""
    t0 = time.time()
    shards: list[dict[str, Any]] = module.plan(tier, seed)
    timeout = float(getattr(module, "SHARD_TIMEOUT", {}).get(tier, 900))
    outdir = tempfile.mkdtemp(prefix=f"vf-{prop}-")
    results: list[dict[str, Any]] = []
    inconclusive: list[str] = []
    crashed: list[dict[str, Any]] = []
    try:
        pending = list(enumerate(shards))
        running: list[tuple[int, subprocess.Popen[bytes], float]] = []
        while pending or running:
            while pending and len(running) < NCPU:
                i, sh = pending.pop(0)
                running.append((i, _run_shard_subprocess(prop, sh, timeout, outdir, i),
                                time.time()))
            time.sleep(0.05)
            still = []
            for i, p, st in running:
                rc = p.poll()
                if rc is None:
                    if time.time() - st > timeout:
                        p.kill()
                        p.wait()
                        inconclusive.append(f"shard {i} watchdog ({timeout:.0f}s)")
                        part = _read_partial(outdir, i)
                        if part is not None:
                            results.append(part)
                    else:
                        still.append((i, p, st))
                    continue
                out_path = os.path.join(outdir, f"shard{i}.out.json")
                if rc == 0 and os.path.exists(out_path):
                    with open(out_path) as f:
                        results.append(json.load(f))
                else:
                    logtxt = ""
                    try:
                        with open(os.path.join(outdir, f"shard{i}.log"), "rb") as f:
                            logtxt = f.read()[-3000:].decode(errors="replace")
                    except OSError:
                        pass
                    crashed.append({"shard": i, "rc": rc, "log": logtxt,
                                    "current": _read_current(outdir, i)})
                    part = _read_partial(outdir, i)
                    if part is not None:
                        results.append(part)
            running = still
        return _fold(prop, module, tier, seed, results, inconclusive, crashed,
                     time.time() - t0)
    finally:
        import shutil
        shutil.rmtree(outdir, ignore_errors=True)


def _read_partial(outdir: str, i: int) -> dict[str, Any] | None:
    p = os.path.join(outdir, f"shard{i}.out.json.partial")
    if os.path.exists(p):
        try:
            with open(p) as f:
                return json.load(f)
        except Exception:
            return None
    return None


def _read_current(outdir: str, i: int) -> Any:
    p = os.path.join(outdir, f"shard{i}.out.json.current")
    if os.path.exists(p):
        try:
            with open(p) as f:
                return json.load(f)
        except Exception:
            return None
    return None


def _merge(a: dict[str, int], b: dict[str, int]) -> None:
    for k, v in b.items():
        a[k] = a.get(k, 0) + v


def _fold(prop: str, module: Any, tier: str, seed: int,
          results: list[dict[str, Any]], inconclusive: list[str],
          crashed: list[dict[str, Any]], wall: float) -> int:
    known, _fixed = load_known_findings()
    evaluations = 0
    nontrivial: set[str] = set()
    disjoint = 0
    samples: list[Any] = []
    counters: dict[str, int] = {}
    hist: dict[str, dict[str, int]] = {}
    viols: list[dict[str, Any]] = []
    viol_counts: dict[str, int] = {}
    notes: list[str] = []
    for r in results:
        evaluations += r["evaluations"]
        nontrivial.update(r["nontrivial"])
        disjoint += r["disjoint_nontrivial"]
        for s in r["samples"]:
            if len(samples) < 5:
                samples.append(s)
        _merge(counters, r["counters"])
        for t, d in r["hist"].items():
            _merge(hist.setdefault(t, {}), d)
        viols.extend(r["violations"])
        _merge(viol_counts, r.get("viol_counts", {}))
        for x in r["inconclusive"]:
            if x not in inconclusive:
                inconclusive.append(x)
        for x in r.get("notes", []):
            if x not in notes:
                notes.append(x)

    # A crashed shard is judged by the check (e.g. a segfault inside generated
    # code is a C01/C11 event); by default it is inconclusive, never "held".
    crash_handler = getattr(module, "on_crash", None)
    for c in crashed:
        handled = None
        if crash_handler is not None:
            handled = crash_handler(c)
        if handled is not None:
            viols.append(handled)
            viol_counts[handled["key"]] = viol_counts.get(handled["key"], 0) + 1
        else:
            inconclusive.append(
                f"shard {c['shard']} exited rc={c['rc']}: {c['log'][-300:]!r}")

    distinct_nontrivial = len(nontrivial) + disjoint

    # minimum-observation rules
    need = getattr(module, "MIN_MONITOR", {})
    for cname, minimum in need.items():
        if counters.get(cname, 0) < minimum:
            inconclusive.append(
                f"monitor '{cname}' evaluated {counters.get(cname, 0)} < {minimum} times")
    if distinct_nontrivial < 2:
        inconclusive.append(f"distinct_nontrivial={distinct_nontrivial} < 2")

    # classify violations
    known_seen: dict[str, int] = {}
    new_viols: list[dict[str, Any]] = []
    seen_new_keys: set[str] = set()
    for v in viols:
        mk = match_known(v["key"], known)
        if mk is not None:
            known_seen[mk] = known_seen.get(mk, 0) + 1
        else:
            new_viols.append(v)
    for k in sorted(known_seen):
        print(f"KNOWN-FINDING: property={prop} {k} :: {known[k].get('what', '')}"
              f" (seen >={known_seen[k]}x this run)")
    replay_dir = Path(os.environ.get("VERIF_REPLAY_DIR", str(VERIF_ROOT / "replay")))
    n_new = 0
    for v in new_viols:
        if v["key"] in seen_new_keys:
            continue
        seen_new_keys.add(v["key"])
        n_new += 1
        replay_dir.mkdir(exist_ok=True, parents=True)
        path = replay_dir / f"{prop}-{stable_hash([v['key'], v['witness']], 10)}.json"
        path.write_text(json.dumps(
            {"property": prop, "key": v["key"], "what": v["what"],
             "witness": v["witness"], "seed": seed, "tier": tier,
             "count_this_run": viol_counts.get(v["key"], 1)}, indent=1))
        print(f"VIOLATION property={prop} replay={path}")
        print(f"  key={v['key']} :: {v['what']}")

    level = getattr(module, "LEVEL", "exploration")
    coverage = {
        "evaluations": evaluations,
        "distinct_nontrivial": distinct_nontrivial,
        "rule": getattr(module, "RULE", ""),
        "samples": samples,
        "monitor_evaluations": {k: v for k, v in sorted(counters.items())
                                if k.startswith("mon.")},
        "counters": {k: v for k, v in sorted(counters.items())
                     if not k.startswith("mon.")},
        "histograms": {t: dict(sorted(d.items())) for t, d in sorted(hist.items())},
        "known_findings_seen": known_seen,
        "new_violation_keys": sorted(seen_new_keys),
        "inconclusive_reasons": inconclusive,
        "notes": notes,
        "shards": len(results), "crashed_shards": len(crashed),
    }
    extra = getattr(module, "coverage_extra", None)
    if extra is not None:
        coverage.update(extra(tier, counters, hist))
    if getattr(module, "EXHAUSTIVE", {}).get(tier):
        coverage["exhaustive"] = True
        coverage["exhaustive_scope"] = module.EXHAUSTIVE[tier]
    ev = {"property_id": prop, "tier": tier, "seed": seed, "level": level,
          "coverage": coverage,
          "assumptions": list(getattr(module, "ASSUMPTIONS", [])),
          "wall_s": round(wall, 2), "violations": n_new,
          "verdict": ("violated" if n_new else
                      "inconclusive" if inconclusive else "held-on-observed")}
    evdir = Path(os.environ.get("VERIF_EVIDENCE_DIR", str(VERIF_ROOT / "evidence")))
    evdir.mkdir(exist_ok=True, parents=True)
    (evdir / f"{prop}.json").write_text(json.dumps(ev, indent=1, sort_keys=False))

    print(f"[{prop}] tier={tier} seed={seed} evaluations={evaluations} "
          f"distinct_nontrivial={distinct_nontrivial} new_violations={n_new} "
          f"known={len(known_seen)} wall={wall:.1f}s")
    mon = coverage["monitor_evaluations"]
    if mon:
        print(f"[{prop}] monitors: " + ", ".join(f"{k}={v}" for k, v in mon.items()))
    if n_new:
        return EXIT_VIOLATION
    if inconclusive:
        for r in inconclusive:
            print(f"INCONCLUSIVE property={prop} reason={r}")
        return EXIT_INCONCLUSIVE
    return EXIT_OK


def exc_site(e: BaseException, roots: tuple[str, ...] = ("pytato", "pymbolic", "loopy",
                                                         "pytools", "islpy")) -> str:
    """Innermost frame of *e*'s traceback that lies in one of the *roots* packages,
    as ``file.py:function`` -- the mechanism part of a known-finding key."""
    import traceback
    site = "?"
    for fs in traceback.extract_tb(e.__traceback__):
        fn = fs.filename.replace("\\", "/")
        parts = fn.split("/")
        for r in roots:
            if r in parts:
                i = len(parts) - 1 - parts[::-1].index(r)
                site = "/".join(parts[i:]) + ":" + fs.name
                break
    return site


def norm_msg(msg: str, n: int = 48) -> str:
    """Normalise an exception message for use inside a mechanism key."""
    import re
    m = re.sub(r"0x[0-9a-f]+", "0xN", msg)
    m = re.sub(r"\d+", "N", m)
    m = re.sub(r"[^A-Za-z0-9_ .:'()<>=/*+-]", " ", m)
    m = re.sub(r"\s+", " ", m).strip()
    return m[:n]


class Timeout(BaseException):
    """Raised by time_limit; a BaseException so that the many `except Exception`
    blocks (ours and third-party) do not swallow it."""


class time_limit:
    """Per-case wall-clock watchdog (never a verdict: expiry is counted and the case is
    skipped).  Re-raises every 5 s after expiry in case something swallows it."""

    def __init__(self, seconds: float):
        self.seconds = seconds

    def _handler(self, signum: int, frame: Any) -> None:
        raise Timeout()

    def __enter__(self) -> "time_limit":
        import signal
        self._old = signal.signal(signal.SIGALRM, self._handler)
        signal.setitimer(signal.ITIMER_REAL, self.seconds, 5.0)
        return self

    def __exit__(self, *a: Any) -> None:
        import signal
        signal.setitimer(signal.ITIMER_REAL, 0, 0)
        signal.signal(signal.SIGALRM, self._old)


def split_even(items: list[Any], n: int) -> list[list[Any]]:
    n = max(1, min(n, len(items))) if items else 1
    return [items[i::n] for i in range(n)]
