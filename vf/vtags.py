"""User-defined tags used by the harness (must live in an importable module so
that pickling works)."""
from __future__ import annotations

from pytools.tag import Tag, UniqueTag, tag_dataclass


@tag_dataclass
class VTag(Tag):
    ident: int


@tag_dataclass
class VAxisTag(Tag):
    ident: int


@tag_dataclass
class VRednTag(Tag):
    ident: int


@tag_dataclass
class VUniqueTag(UniqueTag):
    ident: int


@tag_dataclass
class VNote(Tag):
    """A tag with a string field: several of them on one node iterate in an order that
    depends on the hash seed."""
    text: str


import dataclasses as _dc


@_dc.dataclass(frozen=True)
class CommTag:
    """A user-defined hashable communication tag (C08-C10, C17)."""
    ident: int
